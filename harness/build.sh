#!/bin/bash
# build.sh <outdir> [N]  — compile the library from /repo's working tree with the shim and link the harness binaries
set -e
OUT=${1:?outdir}; N=${2:-4}; REPO=${VERIF_REPO:-/repo}; H=$(dirname "$(readlink -f "$0")")
mkdir -p "$OUT"
CXX=${CXX:-g++}
FLAGS="-std=c++20 -O1 -g -pthread -I$REPO/include -I$H -DCPP_UTILITY_VERIF -DDBGROUP_MAX_THREAD_NUM=$N -DCPP_UTILITY_SPINLOCK_RETRY_NUM=1 -DCPP_UTILITY_BACKOFF_TIME=10 -DCPP_UTILITY_HAS_SPINLOCK_HINT $VERIF_EXTRA_FLAGS"
pids=()
for f in lock/pessimistic_lock lock/optimistic_lock lock/mcs_lock thread/id_manager thread/epoch_manager thread/epoch_guard thread/component/epoch random/zipf; do
  o="$OUT/lib_$(echo $f | tr / _).o"
  $CXX $FLAGS -include "$H/shim.hpp" -c "$REPO/src/$f.cpp" -o "$o" & pids+=($!)
done
$CXX $FLAGS -include "$H/shim.hpp" -DVERIF_SHIM_NO_RENAME -c "$H/rt.cpp" -o "$OUT/rt.o" & pids+=($!)
for d in lock_driver thread_driver zipf_driver; do
  [ -f "$H/$d.cpp" ] && { $CXX $FLAGS -include "$H/shim.hpp" -c "$H/$d.cpp" -o "$OUT/$d.o" & pids+=($!); }
done
for p in "${pids[@]}"; do wait $p; done
LIBS="$OUT/lib_lock_pessimistic_lock.o $OUT/lib_lock_optimistic_lock.o $OUT/lib_lock_mcs_lock.o $OUT/lib_thread_id_manager.o $OUT/lib_thread_epoch_manager.o $OUT/lib_thread_epoch_guard.o $OUT/lib_thread_component_epoch.o $OUT/lib_random_zipf.o"
[ -f "$OUT/lock_driver.o" ] && $CXX $FLAGS "$OUT/lock_driver.o" "$OUT/rt.o" $LIBS -o "$OUT/lockh"
[ -f "$OUT/thread_driver.o" ] && $CXX $FLAGS "$OUT/thread_driver.o" "$OUT/rt.o" $LIBS -o "$OUT/threadh"
[ -f "$OUT/zipf_driver.o" ] && $CXX $FLAGS "$OUT/zipf_driver.o" "$OUT/rt.o" $LIBS -o "$OUT/zipfh"
echo built
