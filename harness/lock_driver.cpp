// Driver for the three lock classes: executes small client programs over guard slots and logs
// API-level call/return events (with guard booleans and versions) for trace validation.
#include <optional>

#include "dbgroup/lock/mcs_lock.hpp"
#include "dbgroup/lock/optimistic_lock.hpp"
#include "dbgroup/lock/pessimistic_lock.hpp"
#include "rt.hpp"

using dbgroup::lock::MCSLock;
using dbgroup::lock::OptimisticLock;
using dbgroup::lock::PessimisticLock;

namespace
{
constexpr int kMaxGuards = 64;
constexpr int kMaxLocks = 4;

int Num(const std::string &s)
{
  size_t i = 0;
  while (i < s.size() && !isdigit(static_cast<unsigned char>(s[i]))) ++i;
  return atoi(s.c_str() + i);
}

struct NoOpt {
  struct OptGuard {};
  struct CompositeGuard {};
};

template <class L, bool kIsOpt>
struct LockDriver : vrt::Driver {
  using SG = typename L::SGuard;
  using IG = typename L::SIXGuard;
  using XG = typename L::XGuard;
  using OG = typename std::conditional_t<kIsOpt, L, NoOpt>::OptGuard;
  using CG = typename std::conditional_t<kIsOpt, L, NoOpt>::CompositeGuard;

  L *locks = nullptr;
  std::optional<SG> s[kMaxGuards];
  std::optional<IG> i[kMaxGuards];
  std::optional<XG> x[kMaxGuards];
  std::optional<OG> o[kMaxGuards];
  std::optional<CG> c[kMaxGuards];
  const char *cls;
  bool ever_s[kMaxGuards] = {}, ever_i[kMaxGuards] = {}, ever_x[kMaxGuards] = {};

  explicit LockDriver(const char *cls_name) : cls{cls_name} {}

  void
  Latch()
  {
    for (int g = 0; g < kMaxGuards; ++g) {
      ever_s[g] = ever_s[g] || (s[g].has_value() && static_cast<bool>(*s[g]));
      ever_i[g] = ever_i[g] || (i[g].has_value() && static_cast<bool>(*i[g]));
      ever_x[g] = ever_x[g] || (x[g].has_value() && static_cast<bool>(*x[g]));
    }
  }

  void
  Setup(const vrt::Program &) override
  {
    locks = static_cast<L *>(aligned_alloc(64, sizeof(L) * kMaxLocks > 64 ? 64 * kMaxLocks : 64));
    for (int k = 0; k < kMaxLocks; ++k) {
      new (&locks[k]) L{};
      char name[8];
      snprintf(name, sizeof(name), "L%d", k + 1);
      vrt::RegisterLoc(&locks[k], sizeof(L), name, "lock");
    }
    if constexpr (std::is_same_v<L, MCSLock>) vrt::TrackAllocSize(sizeof(MCSLock), "N", false);
  }

  static void
  Ver(char *buf, size_t n, uint32_t v)
  {
    snprintf(buf, n, ",\"vh\":%u,\"vl\":%u", v >> 16U, v & 0xFFFFU);
  }

  void
  RunOp(const vrt::Program &p, int t, const vrt::Op &op) override
  {
    RunOp1(p, t, op);
    Latch();
  }

  void
  RunOp1(const vrt::Program &, int t, const vrt::Op &op)
  {
    const std::string &k = op.f[0];
    auto g1 = [&] { return Num(op.f[1]); };
    auto g2 = [&] { return Num(op.f[2]); };
    char v[48] = "";
    if (k == "S" || k == "SIX" || k == "X") {
      int g = g1(), l = g2();
      vrt::Log("{\"e\":\"call\",\"t\":%d,\"op\":\"Lock%s\",\"g\":%d,\"l\":%d}", t, k.c_str(), g, l);
      bool b = false;
      if (k == "S") { s[g].emplace(locks[l - 1].LockS()); b = static_cast<bool>(*s[g]); }
      else if (k == "SIX") { i[g].emplace(locks[l - 1].LockSIX()); b = static_cast<bool>(*i[g]); }
      else {
        x[g].emplace(locks[l - 1].LockX());
        b = static_cast<bool>(*x[g]);
        if constexpr (kIsOpt) Ver(v, sizeof(v), x[g]->GetVersion());
      }
      vrt::Log("{\"e\":\"ret\",\"t\":%d,\"op\":\"Lock%s\",\"g\":%d,\"l\":%d,\"b\":%d%s}", t, k.c_str(), g, l, b, v);
    } else if (k == "U") {
      int g = g1();
      char ty = op.f[1][0];
      vrt::Log("{\"e\":\"call\",\"t\":%d,\"op\":\"Destroy\",\"g\":%d}", t, g);
      switch (ty) {
        case 's': s[g].reset(); break;
        case 'i': i[g].reset(); break;
        case 'x': x[g].reset(); break;
        case 'o': o[g].reset(); break;
        case 'c': c[g].reset(); break;
        default: break;
      }
      vrt::Log("{\"e\":\"ret\",\"t\":%d,\"op\":\"Destroy\",\"g\":%d}", t, g);
    } else if (k == "UP") {
      int g = g1(), h = g2();
      vrt::Log("{\"e\":\"call\",\"t\":%d,\"op\":\"Upgrade\",\"g\":%d,\"h\":%d}", t, g, h);
      x[h].emplace(i[g]->UpgradeToX());
      if constexpr (kIsOpt) Ver(v, sizeof(v), x[h]->GetVersion());
      vrt::Log("{\"e\":\"ret\",\"t\":%d,\"op\":\"Upgrade\",\"g\":%d,\"h\":%d,\"sb\":%d,\"b\":%d%s}", t, g, h,
               static_cast<bool>(*i[g]), static_cast<bool>(*x[h]), v);
    } else if (k == "DN") {
      int g = g1(), h = g2();
      vrt::Log("{\"e\":\"call\",\"t\":%d,\"op\":\"Downgrade\",\"g\":%d,\"h\":%d}", t, g, h);
      i[h].emplace(x[g]->DowngradeToSIX());
      vrt::Log("{\"e\":\"ret\",\"t\":%d,\"op\":\"Downgrade\",\"g\":%d,\"h\":%d,\"sb\":%d,\"b\":%d}", t, g, h,
               static_cast<bool>(*x[g]), static_cast<bool>(*i[h]));
    } else if (k == "D") {
      int g = g1();
      char ty = op.f[1][0];
      bool b = false;
      switch (ty) {
        case 's': s[g].emplace(); b = static_cast<bool>(*s[g]); break;
        case 'i': i[g].emplace(); b = static_cast<bool>(*i[g]); break;
        case 'x': x[g].emplace(); b = static_cast<bool>(*x[g]); break;
        case 'c': if constexpr (kIsOpt) { c[g].emplace(); b = static_cast<bool>(*c[g]); } break;
        default: break;
      }
      vrt::Log("{\"e\":\"ret\",\"t\":%d,\"op\":\"Default\",\"g\":%d,\"b\":%d}", t, g, b);
    } else if (k == "MV" || k == "MA") {
      int g = g1(), h = g2();
      char ty = op.f[1][0];
      const char *name = k == "MV" ? "MoveCtor" : "MoveAssign";
      vrt::Log("{\"e\":\"call\",\"t\":%d,\"op\":\"%s\",\"g\":%d,\"h\":%d}", t, name, g, h);
      bool sb = false, b = false;
      auto mv = [&](auto &arr) {
        if (k == "MV") arr[h].emplace(std::move(*arr[g]));
        else *arr[h] = std::move(*arr[g]);
        sb = static_cast<bool>(*arr[g]);
        b = static_cast<bool>(*arr[h]);
      };
      switch (ty) {
        case 's': mv(s); break;
        case 'i': mv(i); break;
        case 'x': mv(x); break;
        case 'c': if constexpr (kIsOpt) mv(c); break;
        default: break;
      }
      vrt::Log("{\"e\":\"ret\",\"t\":%d,\"op\":\"%s\",\"g\":%d,\"h\":%d,\"sb\":%d,\"b\":%d}", t, name, g, h, sb, b);
    } else if (k == "B") {
      int g = g1();
      char ty = op.f[1][0];
      bool b = false;
      switch (ty) {
        case 's': b = static_cast<bool>(*s[g]); break;
        case 'i': b = static_cast<bool>(*i[g]); break;
        case 'x': b = static_cast<bool>(*x[g]); break;
        case 'o': if constexpr (kIsOpt) b = static_cast<bool>(*o[g]); break;
        case 'c': if constexpr (kIsOpt) b = static_cast<bool>(*c[g]); break;
        default: break;
      }
      vrt::Log("{\"e\":\"ret\",\"t\":%d,\"op\":\"Bool\",\"g\":%d,\"b\":%d}", t, g, b);
    } else if (k == "Q") {
      // hold on until every other thread has finished or queued up (is blocked)
      vrt::WaitOthersQuiet();
      vrt::Log("{\"e\":\"ret\",\"t\":%d,\"op\":\"Sync\",\"g\":0}", t);
    } else if (k == "WAIT") {
      // harness-level wait for a guard created by another thread (guard hand-over programs)
      int g = g1();
      char ty = op.f[1][0];
      // latched: the guard exists or has existed (a waiter that is late must not miss it)
      auto has = [&] {
        Latch();
        switch (ty) {
          case 's': return ever_s[g];
          case 'i': return ever_i[g];
          case 'x': return ever_x[g];
          default: return true;
        }
      };
      while (!has()) verif::SpinHint(0);
      vrt::Log("{\"e\":\"ret\",\"t\":%d,\"op\":\"Sync\",\"g\":%d}", t, g);
    } else if constexpr (kIsOpt) {
      if (k == "GV") {
        int g = g1(), l = g2();
        vrt::Log("{\"e\":\"call\",\"t\":%d,\"op\":\"GetVersion\",\"g\":%d,\"l\":%d}", t, g, l);
        o[g].emplace(locks[l - 1].GetVersion());
        Ver(v, sizeof(v), o[g]->GetVersion());
        vrt::Log("{\"e\":\"ret\",\"t\":%d,\"op\":\"GetVersion\",\"g\":%d,\"l\":%d,\"b\":%d%s}", t, g, l,
                 static_cast<bool>(*o[g]), v);
      } else if (k == "VV") {
        int g = g1();
        vrt::Log("{\"e\":\"call\",\"t\":%d,\"op\":\"Verify\",\"g\":%d}", t, g);
        bool r = o[g]->VerifyVersion();
        Ver(v, sizeof(v), o[g]->GetVersion());
        vrt::Log("{\"e\":\"ret\",\"t\":%d,\"op\":\"Verify\",\"g\":%d,\"r\":%d%s}", t, g, r, v);
      } else if (k == "TS" || k == "TI" || k == "TX") {
        int g = g1(), h = g2();
        const char *m = k == "TS" ? "S" : (k == "TI" ? "SIX" : "X");
        vrt::Log("{\"e\":\"call\",\"t\":%d,\"op\":\"TryLock%s\",\"g\":%d,\"h\":%d}", t, m, g, h);
        bool b = false;
        char xv[48] = "";
        if (k == "TS") { s[h].emplace(o[g]->TryLockS()); b = static_cast<bool>(*s[h]); }
        else if (k == "TI") { i[h].emplace(o[g]->TryLockSIX()); b = static_cast<bool>(*i[h]); }
        else {
          x[h].emplace(o[g]->TryLockX());
          b = static_cast<bool>(*x[h]);
          uint32_t xvv = x[h]->GetVersion();
          snprintf(xv, sizeof(xv), ",\"xh\":%u,\"xl\":%u", xvv >> 16U, xvv & 0xFFFFU);
        }
        Ver(v, sizeof(v), o[g]->GetVersion());
        vrt::Log("{\"e\":\"ret\",\"t\":%d,\"op\":\"TryLock%s\",\"g\":%d,\"h\":%d,\"b\":%d%s%s}", t, m, g, h, b, v, xv);
      } else if (k == "PR") {
        int g = g1(), l = g2();
        vrt::Log("{\"e\":\"call\",\"t\":%d,\"op\":\"PrepareRead\",\"g\":%d,\"l\":%d}", t, g, l);
        c[g].emplace(locks[l - 1].PrepareRead());
        Ver(v, sizeof(v), c[g]->GetVersion());
        vrt::Log("{\"e\":\"ret\",\"t\":%d,\"op\":\"PrepareRead\",\"g\":%d,\"l\":%d,\"b\":%d%s}", t, g, l,
                 static_cast<bool>(*c[g]), v);
      } else if (k == "CV") {
        int g = g1();
        vrt::Log("{\"e\":\"call\",\"t\":%d,\"op\":\"CVerify\",\"g\":%d}", t, g);
        bool r = c[g]->VerifyVersion();
        Ver(v, sizeof(v), c[g]->GetVersion());
        vrt::Log("{\"e\":\"ret\",\"t\":%d,\"op\":\"CVerify\",\"g\":%d,\"r\":%d,\"b\":%d%s}", t, g, r,
                 static_cast<bool>(*c[g]), v);
      } else if (k == "SV") {
        int g = g1();
        auto ver = static_cast<uint32_t>(strtoul(op.f[2].c_str(), nullptr, 0));
        x[g]->SetVersion(ver);
        vrt::Log("{\"e\":\"ret\",\"t\":%d,\"op\":\"SetVersion\",\"g\":%d,\"vh\":%u,\"vl\":%u}", t, g, ver >> 16U,
                 ver & 0xFFFFU);
      } else if (k == "XV") {
        int g = g1();
        Ver(v, sizeof(v), x[g]->GetVersion());
        vrt::Log("{\"e\":\"ret\",\"t\":%d,\"op\":\"XVersion\",\"g\":%d%s}", t, g, v);
      } else {
        fprintf(stderr, "unknown op %s\n", k.c_str());
        _exit(4);
      }
    } else {
      fprintf(stderr, "unknown op %s\n", k.c_str());
      _exit(4);
    }
  }

  void
  Finish(const vrt::Program &) override
  {
    if constexpr (std::is_same_v<L, MCSLock>) {
      vrt::Log("{\"e\":\"final\",\"live_nodes\":%d}", vrt::LiveTracked("N"));
    }
  }
};
}  // namespace

int
main(int argc, char **argv)
{
  if (argc < 2) return 2;
  std::string cls = argv[1];
  if (cls == "pess") {
    LockDriver<PessimisticLock, false> d{"pess"};
    return vrt::Main(argc - 1, argv + 1, d);
  }
  if (cls == "opt") {
    LockDriver<OptimisticLock, true> d{"opt"};
    return vrt::Main(argc - 1, argv + 1, d);
  }
  if (cls == "mcs") {
    LockDriver<MCSLock, false> d{"mcs"};
    return vrt::Main(argc - 1, argv + 1, d);
  }
  fprintf(stderr, "usage: lockh pess|opt|mcs --programs F --out F [--mode dfs|random|sched] ...\n");
  return 2;
}
