// Harness runtime (see rt.hpp).  Compiled with -DVERIF_SHIM_NO_RENAME so that it can use the
// real std::atomic / sleep_for itself.
#include "rt.hpp"

#include <sys/mman.h>
#include <sys/prctl.h>
#include <sys/wait.h>
#include <unistd.h>

#include <cassert>
#include <condition_variable>
#include <csignal>
#include <deque>
#include <cstdio>
#include <cstdlib>
#include <cstring>
#include <fstream>
#include <memory>
#include <mutex>
#include <new>
#include <random>
#include <sstream>
#include <thread>

namespace vrt
{
namespace
{
constexpr int kMaxThreads = 14;
constexpr uint32_t kMaxSteps = 60000;
constexpr uint32_t kLogCap = 24U << 20U;
constexpr int kBlockAfter = 3;  // consecutive spin markers without any state change
constexpr int kRoLimit = 40;    // consecutive read-only operations without any state change (loops without a spin hint)
constexpr int kRoNoBranch = 10;
int g_phase_of[64] = {};

struct Step {
  uint8_t chosen;
  uint8_t flags;  // 1 = chosen thread was spinning (no branching here)
  uint16_t enabled;
};
enum Status : uint32_t { kRunning = 0, kOk, kStuck, kStepLimit, kDiverged, kLogFull };
struct Shm {
  uint32_t nsteps;
  uint32_t loglen;
  uint32_t status;
  uint32_t pad;
  Step steps[kMaxSteps];
  char log[kLogCap];
};
Shm *g_shm = nullptr;

struct TCtx {
  bool started = false, finished = false, body_done = false;
  bool wantother = false;  // yielded inside a QUIESCE wait / long spin: let somebody else run if anybody can
  bool inq = false;        // waiting in QUIESCE: counts as quiet for the others
  int spinrow = 0;         // spin hints in a row while nobody else ran (a spin loop that changes state never "blocks")
  int spin = 0;           // consecutive unchanged spin markers
  int ro_run = 0;         // consecutive read-only operations while nothing changed
  uint64_t mark_gw = 0;   // global write count at the last marker / own write
  uint64_t ro_gw = 0;     // global write count during the current read-only run
  bool blocked = false;
  uint64_t blocked_gw = 0;
  const char *file = "";
  unsigned line = 0;
};

std::mutex g_mu;
std::condition_variable g_cv;
int g_current = 0;  // who holds the baton; 0 = controller
uint64_t g_gw = 0;  // counts state-changing events
TCtx g_t[kMaxThreads + 2];
int g_nthreads = 0;
thread_local int tl_self = 0;
bool g_nobranch = false;
bool g_track_main = false;
bool g_in_child = false;

// ---- tracked allocations (quarantined on free) ---------------------------------------------
struct TrackCls { size_t sz; bool aligned; char cls[8]; };
TrackCls g_track[4];
int g_ntrack = 0;
struct Block { const char *p; size_t sz; int cls; int name; bool live; };
Block g_blocks[8192];
int g_nblocks = 0;
struct Reg { const char *p; size_t len; char name[24]; char cls[12]; };
Reg g_regs[64];
int g_nregs = 0;

const char *MoName(std::memory_order mo)
{
  switch (mo) {
    case std::memory_order_relaxed: return "rlx";
    case std::memory_order_consume: return "acq";
    case std::memory_order_acquire: return "acq";
    case std::memory_order_release: return "rel";
    case std::memory_order_acq_rel: return "acqrel";
    default: return "sc";
  }
}
const char *kOpName[] = {"load", "store", "xchg", "cas", "casf", "fadd", "fsub", "fxor", "fence"};

const char *Base(const char *path)
{
  const char *b = strrchr(path, '/');
  return b ? b + 1 : path;
}

void VLog(const char *fmt, va_list ap)
{
  if (!g_shm) return;
  uint32_t len = g_shm->loglen;
  if (len + 2048 >= kLogCap) { g_shm->status = kLogFull; return; }
  int n = vsnprintf(g_shm->log + len, 2000, fmt, ap);
  if (n < 0) return;
  if (n > 1999) n = 1999;
  g_shm->log[len + n] = '\n';
  g_shm->loglen = len + n + 1;
}

std::atomic<int> g_cur{0};  // mirrors g_current for the spin phase of a hand-over
void SetCurrent(int to)
{
  {
    std::lock_guard lk(g_mu);
    g_current = to;
    g_cur.store(to, std::memory_order_release);
  }
  g_cv.notify_all();
}
void WaitCurrent(int me)
{
  for (int i = 0; i < 3000; ++i) {
    if (g_cur.load(std::memory_order_acquire) == me) return;
    __builtin_ia32_pause();
  }
  std::unique_lock lk(g_mu);
  g_cv.wait(lk, [&] { return g_current == me; });
}
void PassBatonToController() { SetCurrent(0); }
void WaitForBaton(int me) { WaitCurrent(me); }
void YieldToController(int me)
{
  SetCurrent(0);
  WaitCurrent(me);
}

int FindBlock(const void *p, bool live_only)
{
  const char *c = static_cast<const char *>(p);
  for (int i = g_nblocks - 1; i >= 0; --i) {
    if (c >= g_blocks[i].p && c < g_blocks[i].p + g_blocks[i].sz) {
      if (live_only && !g_blocks[i].live) continue;
      return i;
    }
  }
  return -1;
}

bool OnAlloc(void *p, size_t sz, bool aligned)
{
  if (!g_in_child || g_ntrack == 0 || (tl_self <= 0 && !g_track_main)) return false;
  for (int k = 0; k < g_ntrack; ++k) {
    if ((g_track[k].sz == sz || g_track[k].sz == 0) && g_track[k].aligned == aligned) {
      if (g_nblocks >= 8192) return false;
      // names are never reused within an execution: the k-th allocation of a class is <cls>k
      int name = 1;
      for (int i = 0; i < g_nblocks; ++i)
        if (g_blocks[i].cls == k) ++name;
      g_blocks[g_nblocks++] = Block{static_cast<const char *>(p), sz, k, name, true};
      ++g_gw;
      Log("{\"e\":\"alloc\",\"t\":%d,\"cls\":\"%s\",\"n\":\"%s%d\",\"addr\":\"%lx\"}", tl_self, g_track[k].cls,
          g_track[k].cls, name, (unsigned long)p);
      return true;
    }
  }
  return false;
}
// returns true if the block is tracked (then it is quarantined, not released)
bool OnFree(void *p)
{
  if (!g_in_child || g_ntrack == 0 || p == nullptr) return false;
  for (int i = g_nblocks - 1; i >= 0; --i) {
    if (g_blocks[i].p == p) {
      if (!g_blocks[i].live) {
        Log("{\"e\":\"doublefree\",\"t\":%d,\"n\":\"%s%d\"}", tl_self, g_track[g_blocks[i].cls].cls, g_blocks[i].name);
        return true;
      }
      g_blocks[i].live = false;
      ++g_gw;
      Log("{\"e\":\"free\",\"t\":%d,\"cls\":\"%s\",\"n\":\"%s%d\"}", tl_self, g_track[g_blocks[i].cls].cls,
          g_track[g_blocks[i].cls].cls, g_blocks[i].name);
      return true;
    }
  }
  return false;
}

// destroyed last among the thread_local objects of a virtual thread
struct Sentinel {
  int id;
  explicit Sentinel(int i) : id{i} {}
  ~Sentinel()
  {
    Log("{\"e\":\"texit\",\"t\":%d}", id);
    ++g_gw;
    g_t[id].finished = true;
    PassBatonToController();
  }
};

}  // namespace

int Self() { return tl_self; }

void Log(const char *fmt, ...)
{
  va_list ap;
  va_start(ap, fmt);
  VLog(fmt, ap);
  va_end(ap);
}

void NoteWrite()
{
  ++g_gw;
  if (tl_self > 0) g_t[tl_self].mark_gw = g_gw;
}

void YieldPoint()
{
  if (tl_self > 0) YieldToController(tl_self);
}

void RegisterLoc(const void *p, size_t len, const char *name, const char *cls)
{
  if (g_nregs >= 64) return;
  Reg &r = g_regs[g_nregs++];
  r.p = static_cast<const char *>(p);
  r.len = len;
  snprintf(r.name, sizeof(r.name), "%s", name);
  snprintf(r.cls, sizeof(r.cls), "%s", cls);
}

void TrackAllocSize(size_t sz, const char *cls, bool aligned)
{
  if (g_ntrack >= 4) return;
  g_track[g_ntrack].sz = sz;
  g_track[g_ntrack].aligned = aligned;
  snprintf(g_track[g_ntrack].cls, sizeof(g_track[g_ntrack].cls), "%s", cls);
  ++g_ntrack;
}

bool IsFreed(const void *p)
{
  int i = FindBlock(p, false);
  return i >= 0 && !g_blocks[i].live && FindBlock(p, true) < 0;
}

int LiveTracked(const char *cls)
{
  int n = 0;
  for (int i = 0; i < g_nblocks; ++i)
    if (g_blocks[i].live && strcmp(g_track[g_blocks[i].cls].cls, cls) == 0) ++n;
  return n;
}

static void LocDesc(const void *p, char *name, size_t nlen, char *cls, size_t clen)
{
  const char *c = static_cast<const char *>(p);
  for (int i = 0; i < g_nregs; ++i) {
    if (c >= g_regs[i].p && c < g_regs[i].p + g_regs[i].len) {
      if (c == g_regs[i].p) snprintf(name, nlen, "%s", g_regs[i].name);
      else snprintf(name, nlen, "%s+%ld", g_regs[i].name, (long)(c - g_regs[i].p));
      snprintf(cls, clen, "%s", g_regs[i].cls);
      return;
    }
  }
  int b = FindBlock(p, true);
  if (b < 0) b = FindBlock(p, false);
  if (b >= 0) {
    long off = c - g_blocks[b].p;
    if (off == 0) snprintf(name, nlen, "%s%d", g_track[g_blocks[b].cls].cls, g_blocks[b].name);
    else snprintf(name, nlen, "%s%d+%ld", g_track[g_blocks[b].cls].cls, g_blocks[b].name, off);
    snprintf(cls, clen, "%s", g_blocks[b].live ? g_track[g_blocks[b].cls].cls : "freed");
    return;
  }
  snprintf(name, nlen, "@%lx", (unsigned long)p);
  snprintf(cls, clen, "?");
}

std::string LocName(const void *p)
{
  char n[48], c[16];
  LocDesc(p, n, sizeof(n), c, sizeof(c));
  return n;
}

void (*g_exit_op_hook)(const void *, int) = nullptr;
void SetNoBranch(bool on) { g_nobranch = on; }
void TrackMainThread(bool on) { g_track_main = on; }

// every other thread of the phases that may run now has finished or is blocked (as of the latest state change):
// lets a program say "hold on until the others have queued up behind me" without any preemption
bool OthersQuiet()
{
  int me = tl_self;
  if (me <= 0) return true;
  for (int id = 1; id <= g_nthreads; ++id) {
    if (id == me) continue;
    TCtx &t = g_t[id];
    if (t.finished) continue;
    if (g_phase_of[id] > g_phase_of[me]) continue;
    if (t.started && t.inq) continue;
    if (!(t.started && t.blocked && t.blocked_gw == g_gw)) return false;
  }
  return true;
}

// wait until the others are quiet: the waiting thread stays enabled but asks the scheduler to prefer anybody else
void WaitOthersQuiet()
{
  int me = tl_self;
  if (me <= 0) return;
  int rounds = 0;
  g_t[me].inq = true;
  while (!OthersQuiet() && rounds++ < 60) {  // (a waiter whose loop keeps changing state never counts as blocked: go on after a while)
    g_t[me].wantother = true;
    YieldToController(me);
  }
  g_t[me].inq = false;
}

void BlockUntil(const std::function<bool()> &pred)
{
  while (!pred()) verif::SpinHint(0);
}

// ---- exploration (parent process) -----------------------------------------------------------
namespace
{
struct Options {
  std::string programs, out, mode = "dfs", replay_sched;
  int pb = 2;
  long max_exec = 1000000;   // per program
  long seed = 0;
  int shard = 0, nshard = 1;
  int timeout_s = 30;
  long deadline = 0;  // wall-clock second after which no further execution is started (0 = none)
  bool ops = true;
};

Program ParseProgram(const std::string &line)
{
  // P <name> <param>... | op op ... | op ... || final ops
  Program p;
  p.text = line;
  std::istringstream is(line);
  std::string tok;
  int section = 0;  // 0 = header, 1 = inside a thread section
  int phase = 1;
  std::vector<Op> cur;
  auto flush = [&] {
    if (section == 1) { p.threads.push_back(cur); p.phase.push_back(phase); }
    cur.clear();
  };
  while (is >> tok) {
    if (tok == "|") { flush(); section = 1; if (phase == 0) phase = 1; continue; }
    if (tok == "||") { flush(); section = 1; phase = (phase < 2) ? 2 : phase + 1; continue; }
    if (tok == "|<") { flush(); section = 1; phase = 0; continue; }
    if (section == 0) {
      if (tok == "P") continue;
      if (p.name.empty()) p.name = tok; else p.params.push_back(tok);
    } else {
      Op o;
      size_t a = 0;
      while (true) {
        size_t b = tok.find(':', a);
        o.f.push_back(tok.substr(a, b == std::string::npos ? b : b - a));
        if (b == std::string::npos) break;
        a = b + 1;
      }
      cur.push_back(o);
    }
  }
  flush();
  return p;
}

struct RunResult {
  uint32_t status;
  int sig;
  std::vector<Step> steps;
  std::string log;
};

const char *StatusName(uint32_t s, int sig)
{
  if (sig == SIGALRM) return "timeout";
  if (sig != 0) return "crash";
  switch (s) {
    case kOk: return "ok";
    case kStuck: return "stuck";
    case kStepLimit: return "steplimit";
    case kDiverged: return "diverged";
    case kLogFull: return "logfull";
    default: return "aborted";
  }
}

[[noreturn]] void ChildMain(const Program &prog, Driver &drv, const std::vector<uint8_t> &prefix, const Options &opt,
                            uint64_t rseed)
{
  g_in_child = true;
  alarm(opt.timeout_s);
  g_shm->nsteps = 0;
  g_shm->loglen = 0;
  g_shm->status = kRunning;
  drv.Setup(prog);
  const int n = static_cast<int>(prog.threads.size());
  g_nthreads = n;
  for (int id = 1; id <= n && id < 64; ++id) g_phase_of[id] = prog.phase[id - 1];
  if (g_nthreads > kMaxThreads) { fprintf(stderr, "too many threads\n"); _exit(3); }
  std::vector<std::thread> th;
  for (int id = 1; id <= g_nthreads; ++id) {
    th.emplace_back([&, id] {
      tl_self = id;
      thread_local Sentinel sentinel{id};
      WaitForBaton(id);
      g_t[id].started = true;
      const auto &ops = prog.threads[id - 1];
      bool first = true;
      for (const auto &op : ops) {
        if (!first) YieldToController(id);  // a scheduling point between two API calls
        first = false;
        drv.RunOp(prog, id, op);
      }
      if (!first) YieldToController(id);  // a scheduling point between the last call and the thread's exit
      Log("{\"e\":\"tend\",\"t\":%d}", id);
      g_t[id].body_done = true;
      drv.ThreadEnd(prog, id);
    });
  }
  std::mt19937_64 rng(rseed);
  int last = 0;
  int grace = 0;
  uint32_t status = kRunning;
  for (uint32_t step = 0;; ++step) {
    uint16_t enabled = 0;
    bool all_done = true;
    int min_phase = 1 << 30;  // the earliest phase that still has an unfinished thread
    for (int id = 1; id <= n; ++id)
      if (!g_t[id].finished && prog.phase[id - 1] < min_phase) min_phase = prog.phase[id - 1];
    for (int id = 1; id <= g_nthreads; ++id) {
      TCtx &t = g_t[id];
      if (t.finished) continue;
      all_done = false;
      if (t.blocked && t.blocked_gw != g_gw) { t.blocked = false; t.spin = 0; t.ro_run = 0; t.mark_gw = g_gw; }
      if (t.blocked) continue;
      if (prog.phase[id - 1] != min_phase) continue;
      enabled |= static_cast<uint16_t>(1U << id);
    }
    if (all_done) { status = kOk; break; }
    if (enabled == 0 && grace < 3) {
      // before declaring the run stuck, let every blocked thread run on with much higher spin limits: a bounded
      // retry loop that gives up on its own (no state change needed) is not a deadlock
      ++grace;
      for (int id = 1; id <= g_nthreads; ++id) {
        TCtx &t = g_t[id];
        if (!t.finished && t.blocked) { t.blocked = false; t.spin = -60 * grace; t.ro_run = -400 * grace; t.mark_gw = g_gw; t.ro_gw = g_gw; }
      }
      --step;
      continue;
    }
    if (enabled == 0) {
      status = kStuck;
      std::string who;
      for (int id = 1; id <= g_nthreads; ++id) {
        if (g_t[id].finished) continue;
        char b[160];
        snprintf(b, sizeof(b), "%s{\"t\":%d,\"site\":\"%s:%u\"}", who.empty() ? "" : ",", id, Base(g_t[id].file),
                 g_t[id].line);
        who += b;
      }
      Log("{\"e\":\"stuck\",\"who\":[%s]}", who.c_str());
      break;
    }
    if (step >= kMaxSteps - 1) { status = kStepLimit; break; }
    int c = 0;
    if (step < prefix.size()) {
      c = prefix[step];
      if (!(enabled & (1U << c))) { status = kDiverged; Log("{\"e\":\"diverged\",\"step\":%u,\"want\":%d}", step, c); break; }
    } else if (opt.mode == "random") {
      bool stay = last != 0 && (enabled & (1U << last)) && (rng() % 100) < 60;
      if (stay) c = last;
      else {
        int k = __builtin_popcount(enabled);
        int pick = static_cast<int>(rng() % k);
        for (int id = 1; id <= g_nthreads; ++id)
          if (enabled & (1U << id)) { if (pick-- == 0) { c = id; break; } }
      }
    } else {
      // default policy: keep running the same thread; when it cannot continue, the next enabled thread in
      // round-robin order (delay-bounded style: waiters queue up behind a holder with few deviations)
      if (last != 0 && (enabled & (1U << last)) && !g_t[last].wantother) c = last;
      else
        for (int k = 1; k <= g_nthreads; ++k) {
          int id = (last + k - 1) % g_nthreads + 1;      // starts at last + 1, reaches last itself at the end
          if (enabled & (1U << id)) { c = id; break; }
        }
    }
    Step &s = g_shm->steps[step];
    s.chosen = static_cast<uint8_t>(c);
    s.enabled = enabled;
    s.flags = (g_t[c].spin > 0 || g_t[c].ro_run >= kRoNoBranch || g_nobranch || g_t[c].wantother) ? 1 : 0;
    g_t[c].wantother = false;
    if (c != last) g_t[c].spinrow = 0;
    g_shm->nsteps = step + 1;
    SetCurrent(c);
    WaitCurrent(0);
    last = c;
    if (g_shm->status == kLogFull) { status = kLogFull; break; }
  }
  if (status == kOk) {
    for (auto &t : th) t.join();
    drv.Finish(prog);
  }
  g_shm->status = status;
  _exit(0);
}

RunResult RunOnce(const Program &prog, Driver &drv, const std::vector<uint8_t> &prefix, const Options &opt, uint64_t rseed)
{
  g_shm->nsteps = 0;
  g_shm->loglen = 0;
  g_shm->status = kRunning;
  pid_t pid = fork();
  if (pid < 0) { perror("fork"); exit(2); }
  if (pid == 0) {
    prctl(PR_SET_PDEATHSIG, SIGKILL);
    ChildMain(prog, drv, prefix, opt, rseed);
  }
  int st = 0;
  waitpid(pid, &st, 0);
  RunResult r;
  r.sig = WIFSIGNALED(st) ? WTERMSIG(st) : 0;
  r.status = g_shm->status;
  if (!WIFSIGNALED(st) && WIFEXITED(st) && WEXITSTATUS(st) != 0) r.sig = -WEXITSTATUS(st);
  r.steps.assign(g_shm->steps, g_shm->steps + std::min(g_shm->nsteps, kMaxSteps));
  r.log.assign(g_shm->log, g_shm->loglen);
  return r;
}

long g_out_bytes = 0;
constexpr long kMaxOutBytes = 600L * 1024 * 1024;  // per shard
constexpr int kMaxRunaway = 6;                     // executions of one program that hit the step limit / filled the log

std::string SchedString(const std::vector<Step> &steps)
{
  std::string s;
  for (size_t i = 0; i < steps.size(); ++i) {
    if (i) s += ',';
    s += std::to_string(steps[i].chosen);
  }
  return s;
}

void Emit(FILE *out, const Program &prog, long idx, const RunResult &r)
{
  fprintf(out, "{\"e\":\"exec\",\"prog\":\"%s\",\"idx\":%ld}\n", prog.name.c_str(), idx);
  // an execution that ran into the step limit is a livelock: its verdict needs the calls and the end, not 60000 operations
  if (r.status == kStepLimit && r.log.size() > 400000) {
    size_t cut = r.log.rfind('\n', 200000);
    fwrite(r.log.data(), 1, cut == std::string::npos ? 0 : cut + 1, out);
    g_out_bytes += 200000;
  } else {
    fwrite(r.log.data(), 1, r.log.size(), out);
    g_out_bytes += static_cast<long>(r.log.size());
  }
  fprintf(out, "{\"e\":\"end\",\"status\":\"%s\",\"sig\":%d,\"steps\":%zu,\"sched\":\"%s\"}\n", StatusName(r.status, r.sig),
          r.sig, r.steps.size(), SchedString(r.steps).c_str());
}

struct Stats { long execs = 0, truncated = 0; };
bool Late(const Options &opt) { return opt.deadline != 0 && time(nullptr) > opt.deadline; }


void Explore(const Program &prog, Driver &drv, const Options &opt, FILE *out, Stats &st)
{
  long idx = 0;
  if (opt.mode == "sched") {
    std::vector<uint8_t> pre;
    std::istringstream is(opt.replay_sched);
    std::string tok;
    while (std::getline(is, tok, ',')) if (!tok.empty()) pre.push_back(static_cast<uint8_t>(atoi(tok.c_str())));
    auto r = RunOnce(prog, drv, pre, opt, 0);
    Emit(out, prog, idx++, r);
    st.execs++;
    return;
  }
  if (opt.mode == "psched") {
    // every program line carries its own schedule (header parameter sched=1,2,...): one execution each
    std::vector<uint8_t> pre;
    for (const auto &par : prog.params) {
      if (par.rfind("sched=", 0) != 0) continue;
      std::istringstream is(par.substr(6));
      std::string tok;
      while (std::getline(is, tok, ',')) if (!tok.empty()) pre.push_back(static_cast<uint8_t>(atoi(tok.c_str())));
    }
    auto r = RunOnce(prog, drv, pre, opt, 0);
    Emit(out, prog, idx++, r);
    st.execs++;
    return;
  }
  if (opt.mode == "random") {
    int runaway = 0;
    for (long k = 0; k < opt.max_exec && runaway < kMaxRunaway && g_out_bytes <= kMaxOutBytes && !Late(opt); ++k) {
      auto r = RunOnce(prog, drv, {}, opt, static_cast<uint64_t>(opt.seed) * 1000003ULL + k * 7919ULL + std::hash<std::string>{}(prog.name));
      Emit(out, prog, idx++, r);
      st.execs++;
      if (r.status == kStepLimit || r.status == kLogFull) ++runaway;
    }
    return;
  }
  // preemption-bounded search over scheduling choices, in order of the number of deviations from the default
  // policy (breadth-first over prefixes): when the budget truncates the search, every schedule with few
  // deviations has been run
  std::deque<std::vector<uint8_t>> queue;
  queue.emplace_back();
  int runaway = 0;
  while (!queue.empty()) {
    if (idx >= opt.max_exec || runaway >= kMaxRunaway || g_out_bytes > kMaxOutBytes || Late(opt)) { st.truncated++; break; }
    auto prefix = std::move(queue.front());
    queue.pop_front();
    auto r = RunOnce(prog, drv, prefix, opt, 0);
    Emit(out, prog, idx++, r);
    st.execs++;
    if (r.status == kStepLimit || r.status == kLogFull) ++runaway;
    const auto &s = r.steps;
    std::vector<int> pre(s.size() + 1, 0);
    for (size_t i = 0; i < s.size(); ++i) {
      int p = 0;
      if (i > 0 && s[i].chosen != s[i - 1].chosen && (s[i].enabled & (1U << s[i - 1].chosen))) p = 1;
      pre[i + 1] = pre[i] + p;
    }
    if (queue.size() > 400000) continue;  // the budget cannot reach them anyway
    for (size_t i = prefix.size(); i < s.size(); ++i) {
      if (s[i].flags & 1) continue;
      for (int a = 1; a <= kMaxThreads; ++a) {
        if (a == s[i].chosen || !(s[i].enabled & (1U << a))) continue;
        int p = pre[i];
        if (i > 0 && a != s[i - 1].chosen && (s[i].enabled & (1U << s[i - 1].chosen))) p += 1;
        if (p > opt.pb) continue;
        std::vector<uint8_t> np;
        np.reserve(i + 1);
        for (size_t j = 0; j < i; ++j) np.push_back(s[j].chosen);
        np.push_back(static_cast<uint8_t>(a));
        queue.push_back(std::move(np));
      }
    }
  }
}
}  // namespace

int Main(int argc, char **argv, Driver &drv)
{
  Options opt;
  for (int i = 1; i < argc; ++i) {
    std::string a = argv[i];
    auto next = [&] { return std::string(i + 1 < argc ? argv[++i] : ""); };
    if (a == "--programs") opt.programs = next();
    else if (a == "--out") opt.out = next();
    else if (a == "--mode") opt.mode = next();
    else if (a == "--sched") { opt.replay_sched = next(); opt.mode = "sched"; }
    else if (a == "--pb") opt.pb = atoi(next().c_str());
    else if (a == "--max-exec") opt.max_exec = atol(next().c_str());
    else if (a == "--seed") opt.seed = atol(next().c_str());
    else if (a == "--timeout") opt.timeout_s = atoi(next().c_str());
    else if (a == "--deadline") opt.deadline = atol(next().c_str());
    else if (a == "--shard") { auto s = next(); sscanf(s.c_str(), "%d/%d", &opt.shard, &opt.nshard); }
    else { fprintf(stderr, "unknown option %s\n", a.c_str()); return 2; }
  }
  prctl(PR_SET_PDEATHSIG, SIGKILL);  // never outlive the check that started the exploration
  g_shm = static_cast<Shm *>(mmap(nullptr, sizeof(Shm), PROT_READ | PROT_WRITE, MAP_SHARED | MAP_ANONYMOUS, -1, 0));
  if (g_shm == MAP_FAILED) { perror("mmap"); return 2; }
  std::ifstream in(opt.programs);
  if (!in) { fprintf(stderr, "cannot read %s\n", opt.programs.c_str()); return 2; }
  FILE *out = opt.out.empty() || opt.out == "-" ? stdout : fopen(opt.out.c_str(), "w");
  if (!out) { perror("out"); return 2; }
  std::string line;
  long k = 0;
  Stats st;
  long nprog = 0;
  while (std::getline(in, line)) {
    if (line.empty() || line[0] == '#') continue;
    if ((k++ % opt.nshard) != opt.shard) continue;
    if (Late(opt)) { st.truncated++; continue; }
    Program p = ParseProgram(line);
    Explore(p, drv, opt, out, st);
    nprog++;
  }
  fprintf(out, "{\"e\":\"summary\",\"programs\":%ld,\"execs\":%ld,\"truncated\":%ld}\n", nprog, st.execs, st.truncated);
  if (out != stdout) fclose(out);
  return 0;
}
}  // namespace vrt

// ---- hooks called by the shim and by the repository's guarded hooks -----------------------------
namespace verif
{
void PreOp(const void *loc, int, std::memory_order, const char *file, unsigned line) noexcept
{
  using namespace vrt;
  int me = tl_self;
  if (me <= 0 || !g_in_child) return;
  g_t[me].file = file;
  g_t[me].line = line;
  YieldToController(me);
  if (loc != nullptr && IsFreed(loc)) {
    Log("{\"e\":\"uaf\",\"t\":%d,\"loc\":\"%s\",\"site\":\"%s:%u\"}", me, LocName(loc).c_str(), Base(file), line);
  }
}

void PostOp(const void *loc, int op, std::memory_order mo, uint64_t before, uint64_t after) noexcept
{
  using namespace vrt;
  int me = tl_self;
  if (me <= 0 || !g_in_child) return;
  char name[48] = "-", cls[16] = "-";
  if (loc != nullptr) LocDesc(loc, name, sizeof(name), cls, sizeof(cls));
  Log("{\"e\":\"op\",\"t\":%d,\"k\":\"%s\",\"loc\":\"%s\",\"cls\":\"%s\",\"mo\":\"%s\",\"site\":\"%s:%u\",\"b\":\"%lx\",\"a\":\"%lx\"}",
      me, kOpName[op], name, cls, MoName(mo), Base(g_t[me].file), g_t[me].line, (unsigned long)before, (unsigned long)after);
  bool modifies = !(op == kLoad || op == kCasFail || op == kFence);
  TCtx &t = g_t[me];
  if (modifies) {
    ++g_gw;
    t.mark_gw = g_gw;
    t.spin = 0;
    t.ro_run = 0;
    t.ro_gw = g_gw;
  } else {
    if (t.ro_gw == g_gw) {
      if (++t.ro_run >= kRoLimit) { t.blocked = true; t.blocked_gw = g_gw; }
    } else {
      t.ro_run = 1;
      t.ro_gw = g_gw;
    }
  }
  // thread-exit destructors: also a scheduling point AFTER every operation, so that the steps of the
  // exit path (ID release, heartbeat expiry, node free) can be separated whatever their order
  if (t.body_done) {
    if (g_exit_op_hook != nullptr) g_exit_op_hook(loc, op);
    YieldToController(me);
  }
}

// weak_ptr operations of the library on shared state: scheduling point before, event after
void PrePlain(const void *, int, const char *file, unsigned line) noexcept
{
  using namespace vrt;
  int me = tl_self;
  if (me <= 0 || !g_in_child) return;
  g_t[me].file = file;
  g_t[me].line = line;
  YieldToController(me);
}

void PostPlain(const void *obj, int kind, int result) noexcept
{
  using namespace vrt;
  int me = tl_self;
  if (me <= 0 || !g_in_child) return;
  static const char *const kName[] = {"expired", "lock", "assign", "reset"};
  char name[48] = "-", cls[16] = "-";
  LocDesc(obj, name, sizeof(name), cls, sizeof(cls));
  Log("{\"e\":\"wp\",\"t\":%d,\"k\":\"%s\",\"obj\":\"%s\",\"r\":%d,\"site\":\"%s:%u\"}", me, kName[kind & 3], name, result,
      Base(g_t[me].file), g_t[me].line);
  TCtx &t = g_t[me];
  if (kind >= 2) {
    ++g_gw;
    t.mark_gw = g_gw;
    t.spin = 0;
    t.ro_run = 0;
    t.ro_gw = g_gw;
  }
  if (t.body_done) YieldToController(me);
}

void SpinHint(int) noexcept
{
  using namespace vrt;
  int me = tl_self;
  if (me <= 0 || !g_in_child) return;
  TCtx &t = g_t[me];
  // fairness: a waiter whose loop keeps changing shared state (and therefore never counts as blocked) must not starve the
  // thread it is waiting for under the "continue the running thread" policy
  if (++t.spinrow >= 8) t.wantother = true;
  if (t.mark_gw == g_gw) {
    if (++t.spin >= kBlockAfter) { t.blocked = true; t.blocked_gw = g_gw; }
  } else {
    t.spin = 0;
    t.mark_gw = g_gw;
  }
  YieldToController(me);
}
}  // namespace verif

namespace dbgroup::verif
{
// default definitions; drivers may override behaviour through these function pointers
void (*g_point_handler)(const char *, const void *) = nullptr;
size_t (*g_hash_handler)(size_t) = nullptr;
void Point(const char *name, const void *obj) noexcept
{
  if (g_point_handler) g_point_handler(name, obj);
}
auto ThreadHash(size_t hash) noexcept -> size_t
{
  return g_hash_handler ? g_hash_handler(hash) : hash;
}
}  // namespace dbgroup::verif

// ---- global allocation functions: log and quarantine tracked sizes --------------------------------
void *operator new(size_t sz)
{
  void *p = malloc(sz ? sz : 1);
  if (!p) throw std::bad_alloc{};
  vrt::OnAlloc(p, sz, false);
  return p;
}
void *operator new[](size_t sz)
{
  void *p = malloc(sz ? sz : 1);
  if (!p) throw std::bad_alloc{};
  return p;
}
void *operator new(size_t sz, std::align_val_t al)
{
  void *p = aligned_alloc(static_cast<size_t>(al), (sz + static_cast<size_t>(al) - 1) / static_cast<size_t>(al) * static_cast<size_t>(al));
  if (!p) throw std::bad_alloc{};
  vrt::OnAlloc(p, sz, true);
  return p;
}
void operator delete(void *p) noexcept { if (!vrt::OnFree(p)) free(p); }
void operator delete(void *p, size_t) noexcept { if (!vrt::OnFree(p)) free(p); }
void operator delete[](void *p) noexcept { free(p); }
void operator delete[](void *p, size_t) noexcept { free(p); }
void operator delete(void *p, std::align_val_t) noexcept { if (!vrt::OnFree(p)) free(p); }
void operator delete(void *p, size_t, std::align_val_t) noexcept { if (!vrt::OnFree(p)) free(p); }
