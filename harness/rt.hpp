// Harness runtime: real std::threads under a deterministic baton scheduler, one forked child
// process per execution, event log in shared memory, systematic (preemption-bounded DFS),
// random and explicit-schedule exploration.
#pragma once
#include <cstdarg>
#include <cstdint>
#include <functional>
#include <string>
#include <vector>

namespace vrt
{
// ---- used by drivers (inside the child process) -------------------------------------------
int Self();                                        // virtual thread id (1-based), 0 = none
void Log(const char *fmt, ...) __attribute__((format(printf, 1, 2)));  // one JSON object per call
void NoteWrite();                                  // shared state changed (unblocks spinners)
void YieldPoint();                                 // explicit scheduling point
void RegisterLoc(const void *p, size_t len, const char *name, const char *cls);
void TrackAllocSize(size_t sz, const char *cls, bool aligned);   // log/quarantine these allocations (sz 0 = any size)
void TrackMainThread(bool on);                     // also track allocations made outside virtual threads
bool IsFreed(const void *p);                       // inside a freed (quarantined) tracked block?
std::string LocName(const void *p);                // registered / tracked name, or hex
int LiveTracked(const char *cls);                  // number of live tracked blocks of a class
void SetNoBranch(bool on);                         // steps taken while on are not branching points of the DFS
bool OthersQuiet();                                     // all other runnable threads finished or blocked
void WaitOthersQuiet();                                 // yield to the others until they are
void BlockUntil(const std::function<bool()> &pred);  // harness-level wait (barrier, hand-over)
extern void (*g_exit_op_hook)(const void *loc, int op);  // called after every atomic operation of a thread-exit destructor

// ---- program / driver interface -----------------------------------------------------------
struct Op {
  std::vector<std::string> f;  // fields split on ':'
};
struct Program {
  std::string name;
  std::vector<std::string> params;           // free-form header fields
  std::vector<std::vector<Op>> threads;      // virtual threads 1..n in textual order
  std::vector<int> phase;                    // phase[i] of threads[i]: a thread starts only after every
                                             // thread of an earlier phase has exited ("|<" = 0, "|" = 1, "||" opens 2, 3, ...)
  std::string text;                          // the original line
};

struct Driver {
  virtual ~Driver() = default;
  virtual void Setup(const Program &p) = 0;                    // in the child, before threads start
  virtual void RunOp(const Program &p, int tid, const Op &op) = 0;
  virtual void ThreadEnd(const Program &, int) {}              // body finished, before TLS destructors
  virtual void Finish(const Program &) {}                      // in the child, all threads joined
};

// generic main(): parses the command line, explores the programs of this shard, writes ndjson
int Main(int argc, char **argv, Driver &drv);
}  // namespace vrt
