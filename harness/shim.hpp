// Instrumenting shim, force-included (-include) into every translation unit of the library and
// of the harness.  It re-points the atomic type names the library uses to a wrapper that
// (1) gives the harness runtime a scheduling point before every atomic operation,
// (2) reports the operation, its memory order as written in the source, the call site and the
//     values before/after, and (3) turns spin hints / back-off sleeps into runtime notifications.
// The library sources are compiled unmodified.
#pragma once
#ifndef VERIF_SHIM_HPP_
#define VERIF_SHIM_HPP_

#include <bits/stdc++.h>
#include <source_location>
#include <x86intrin.h>

namespace verif
{
enum Op : int { kLoad, kStore, kXchg, kCasOk, kCasFail, kFadd, kFsub, kFxor, kFence };

// implemented by the harness runtime (rt.cpp)
void PreOp(const void *loc, int op, std::memory_order mo, const char *file, unsigned line) noexcept;
void PostOp(const void *loc, int op, std::memory_order mo, uint64_t before, uint64_t after) noexcept;
void SpinHint(int kind) noexcept;

template <class T>
class Atomic
{
  std::atomic<T> v_;
  using SL = std::source_location;

 public:
  constexpr Atomic() noexcept = default;
  constexpr Atomic(T v) noexcept : v_{v} {}  // NOLINT
  Atomic(const Atomic &) = delete;
  auto operator=(const Atomic &) -> Atomic & = delete;

  T
  load(std::memory_order mo = std::memory_order_seq_cst, SL sl = SL::current()) const noexcept
  {
    PreOp(this, kLoad, mo, sl.file_name(), sl.line());
    T r = v_.load(mo);
    PostOp(this, kLoad, mo, (uint64_t)r, (uint64_t)r);
    return r;
  }
  void
  store(T d, std::memory_order mo = std::memory_order_seq_cst, SL sl = SL::current()) noexcept
  {
    PreOp(this, kStore, mo, sl.file_name(), sl.line());
    T b = v_.load(std::memory_order_relaxed);
    v_.store(d, mo);
    PostOp(this, kStore, mo, (uint64_t)b, (uint64_t)d);
  }
  T
  exchange(T d, std::memory_order mo = std::memory_order_seq_cst, SL sl = SL::current()) noexcept
  {
    PreOp(this, kXchg, mo, sl.file_name(), sl.line());
    T r = v_.exchange(d, mo);
    PostOp(this, kXchg, mo, (uint64_t)r, (uint64_t)d);
    return r;
  }
  // weak CAS is mapped to strong CAS: a spurious failure is a stutter of the specification
  bool
  compare_exchange_weak(T &e, T d, std::memory_order s, std::memory_order f, SL sl = SL::current()) noexcept
  {
    PreOp(this, kCasOk, s, sl.file_name(), sl.line());
    T e0 = e;
    bool ok = v_.compare_exchange_strong(e, d, s, f);
    if (ok) {
      PostOp(this, kCasOk, s, (uint64_t)e0, (uint64_t)d);
    } else {
      PostOp(this, kCasFail, f, (uint64_t)e, (uint64_t)e);
    }
    return ok;
  }
  bool
  compare_exchange_strong(T &e, T d, std::memory_order s, std::memory_order f, SL sl = SL::current()) noexcept
  {
    return compare_exchange_weak(e, d, s, f, sl);
  }
  bool
  compare_exchange_weak(T &e, T d, std::memory_order m = std::memory_order_seq_cst, SL sl = SL::current()) noexcept
  {
    auto f = m == std::memory_order_acq_rel ? std::memory_order_acquire
             : m == std::memory_order_release ? std::memory_order_relaxed : m;
    return compare_exchange_weak(e, d, m, f, sl);
  }
  bool
  compare_exchange_strong(T &e, T d, std::memory_order m = std::memory_order_seq_cst, SL sl = SL::current()) noexcept
  {
    return compare_exchange_weak(e, d, m, sl);
  }
  T
  fetch_add(T d, std::memory_order mo = std::memory_order_seq_cst, SL sl = SL::current()) noexcept
  {
    PreOp(this, kFadd, mo, sl.file_name(), sl.line());
    T r = v_.fetch_add(d, mo);
    PostOp(this, kFadd, mo, (uint64_t)r, (uint64_t)(r + d));
    return r;
  }
  T
  fetch_sub(T d, std::memory_order mo = std::memory_order_seq_cst, SL sl = SL::current()) noexcept
  {
    PreOp(this, kFsub, mo, sl.file_name(), sl.line());
    T r = v_.fetch_sub(d, mo);
    PostOp(this, kFsub, mo, (uint64_t)r, (uint64_t)(r - d));
    return r;
  }
  T
  fetch_xor(T d, std::memory_order mo = std::memory_order_seq_cst, SL sl = SL::current()) noexcept
  {
    PreOp(this, kFxor, mo, sl.file_name(), sl.line());
    T r = v_.fetch_xor(d, mo);
    PostOp(this, kFxor, mo, (uint64_t)r, (uint64_t)(r ^ d));
    return r;
  }
  T
  fetch_or(T d, std::memory_order mo = std::memory_order_seq_cst, SL sl = SL::current()) noexcept
  {
    PreOp(this, kFxor, mo, sl.file_name(), sl.line());
    T r = v_.fetch_or(d, mo);
    PostOp(this, kFxor, mo, (uint64_t)r, (uint64_t)(r | d));
    return r;
  }
  T
  fetch_and(T d, std::memory_order mo = std::memory_order_seq_cst, SL sl = SL::current()) noexcept
  {
    PreOp(this, kFxor, mo, sl.file_name(), sl.line());
    T r = v_.fetch_and(d, mo);
    PostOp(this, kFxor, mo, (uint64_t)r, (uint64_t)(r & d));
    return r;
  }
  // raw access for the harness itself (no scheduling point, no event)
  T raw() const noexcept { return v_.load(std::memory_order_relaxed); }
};

inline void
Fence(std::memory_order mo, std::source_location sl = std::source_location::current()) noexcept
{
  PreOp(nullptr, kFence, mo, sl.file_name(), sl.line());
  std::atomic_thread_fence(mo);
  PostOp(nullptr, kFence, mo, 0, 0);
}
}  // namespace verif

namespace verif
{
// operations on a std::weak_ptr the library keeps in shared state (EpochManager's per-slot heartbeat): a scheduling point
// before, an event after; kinds: 0 expired, 1 lock, 2 assign, 3 reset
void PrePlain(const void *obj, int kind, const char *file, unsigned line) noexcept;
void PostPlain(const void *obj, int kind, int result) noexcept;
}  // namespace verif

namespace std
{
template <class T>
class verif_weak_ptr : public weak_ptr<T>
{
  using B = weak_ptr<T>;
  using SL = source_location;

 public:
  constexpr verif_weak_ptr() noexcept = default;
  verif_weak_ptr(const verif_weak_ptr &o) noexcept : B{static_cast<const B &>(o)} {}
  verif_weak_ptr(verif_weak_ptr &&o) noexcept : B{static_cast<B &&>(o)} {}
  verif_weak_ptr(const B &o) noexcept : B{o} {}  // NOLINT
  verif_weak_ptr(B &&o) noexcept : B{std::move(o)} {}  // NOLINT
  template <class U>
  verif_weak_ptr(const shared_ptr<U> &o) noexcept : B{o} {}  // NOLINT
  ~verif_weak_ptr() = default;

  auto
  operator=(const verif_weak_ptr &o) noexcept -> verif_weak_ptr &
  {
    Assign(static_cast<const B &>(o), SL::current());
    return *this;
  }
  auto
  operator=(verif_weak_ptr &&o) noexcept -> verif_weak_ptr &
  {
    Assign(static_cast<const B &>(o), SL::current());
    return *this;
  }
  template <class U>
  auto
  operator=(const shared_ptr<U> &o) noexcept -> verif_weak_ptr &
  {
    Assign(B{o}, SL::current());
    return *this;
  }
  bool
  expired(SL sl = SL::current()) const noexcept
  {
    ::verif::PrePlain(this, 0, sl.file_name(), sl.line());
    const bool r = B::expired();
    ::verif::PostPlain(this, 0, r);
    return r;
  }
  shared_ptr<T>
  lock(SL sl = SL::current()) const noexcept
  {
    ::verif::PrePlain(this, 1, sl.file_name(), sl.line());
    auto r = B::lock();
    ::verif::PostPlain(this, 1, r != nullptr);
    return r;
  }
  void
  reset(SL sl = SL::current()) noexcept
  {
    ::verif::PrePlain(this, 3, sl.file_name(), sl.line());
    B::reset();
    ::verif::PostPlain(this, 3, 0);
  }

 private:
  void
  Assign(const B &o, SL sl) noexcept
  {
    ::verif::PrePlain(this, 2, sl.file_name(), sl.line());
    B::operator=(o);
    ::verif::PostPlain(this, 2, !B::expired());
  }
};

using verif_atomic_uint64_t = ::verif::Atomic<uint64_t>;
using verif_atomic_size_t = ::verif::Atomic<size_t>;
using verif_atomic_bool = ::verif::Atomic<bool>;
inline void
verif_atomic_thread_fence(memory_order mo, source_location sl = source_location::current()) noexcept
{
  ::verif::Fence(mo, sl);
}
namespace this_thread
{
template <class R, class P>
inline void
verif_sleep_for(const chrono::duration<R, P> &)
{
  ::verif::SpinHint(1);
}
// std::this_thread::yield() in a waiting loop: a spin hint as well (otherwise such a loop never hands the baton back)
inline void
verif_yield() noexcept
{
  ::verif::SpinHint(2);
}
}  // namespace this_thread
}  // namespace std
inline void
verif_mm_pause()
{
  ::verif::SpinHint(0);
}

#ifndef VERIF_SHIM_NO_RENAME
#define atomic_uint64_t verif_atomic_uint64_t
#define atomic_size_t verif_atomic_size_t
#define atomic_bool verif_atomic_bool
#define atomic_thread_fence verif_atomic_thread_fence
#define sleep_for verif_sleep_for
#define _mm_pause verif_mm_pause
#define yield verif_yield
#ifndef VERIF_SHIM_NO_WEAK
#define weak_ptr verif_weak_ptr
#endif
#endif

#endif  // VERIF_SHIM_HPP_
