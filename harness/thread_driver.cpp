// Driver for IDManager / EpochManager: every virtual thread is a real OS thread (thread_local
// HeartBeater, thread-exit destructors run under the baton).  Logs API-level events for the abstract
// specifications IdAbs / EpochAbs and relies on the shim + guarded hooks for scheduling points.
#include <memory>
#include <optional>

#include "dbgroup/thread/epoch_manager.hpp"
#include "dbgroup/thread/id_manager.hpp"
#include "rt.hpp"

// the harness' own copies of heartbeats are plain std::weak_ptr: observing them is not a scheduling point
#undef weak_ptr

using dbgroup::thread::EpochGuard;
using dbgroup::thread::EpochManager;
using dbgroup::thread::IDManager;

namespace dbgroup::verif
{
extern void (*g_point_handler)(const char *, const void *);
extern size_t (*g_hash_handler)(size_t);
}  // namespace dbgroup::verif

namespace
{
constexpr int kMaxT = 16;

struct Saved {
  std::weak_ptr<size_t> hb;
  int owner = 0;
  long id = -1;
  bool used = false;
};

struct ThreadDriver : vrt::Driver {
  EpochManager *mgr = nullptr;
  size_t hashes[kMaxT] = {};
  Saved saved[32];
  std::shared_ptr<size_t> strong[32];
  std::optional<EpochGuard> guard[kMaxT];
  const std::vector<size_t> *list[kMaxT] = {};
  int pin[kMaxT] = {};                      // whose slot the guard variable of thread t refers to (0 = none)
  std::optional<EpochGuard> mailbox[8];     // guards handed from one thread to another
  int mpin[8] = {};
  int barrier_count[8] = {};
  int turn = 0;
  bool want_mgr = false;

  static ThreadDriver *self;
  std::weak_ptr<size_t> own_hb[kMaxT];

  static void
  OnExitOp(const void *, int)
  {
    int t = vrt::Self();
    if (t <= 0 || t >= kMaxT || self == nullptr) return;
    vrt::Log("{\"e\":\"exitop\",\"t\":%d,\"x\":%d}", t, self->own_hb[t].expired());
  }

  static void
  OnPoint(const char *name, const void *obj)
  {
    int t = vrt::Self();
    if (t <= 0) return;
    bool freed = vrt::IsFreed(obj);
    vrt::Log("{\"e\":\"pt\",\"t\":%d,\"name\":\"%s\",\"obj\":\"%s\",\"freed\":%d}", t, name, vrt::LocName(obj).c_str(), freed);
    vrt::YieldPoint();
    // the quantum after the point starts here: gives the steps that follow a hook (heartbeat test of the slot scan,
    // re-binding, dereference of a list node, delete of a retired node) an exact position in the trace
    vrt::Log("{\"e\":\"ptr\",\"t\":%d,\"name\":\"%s\"}", t, name);
    if (std::string(name) == "epoch.walk.hop" && vrt::IsFreed(obj)) {
      vrt::Log("{\"e\":\"uaf\",\"t\":%d,\"loc\":\"%s\",\"site\":\"epoch.walk.hop\"}", t, vrt::LocName(obj).c_str());
    }
  }

  static size_t
  OnHash(size_t h)
  {
    int t = vrt::Self();
    if (t > 0 && t < kMaxT && self != nullptr) return self->hashes[t];
    return h;
  }

  void
  Setup(const vrt::Program &p) override
  {
    self = this;
    dbgroup::verif::g_point_handler = &OnPoint;
    dbgroup::verif::g_hash_handler = &OnHash;
    vrt::g_exit_op_hook = &OnExitOp;
    for (int t = 0; t < kMaxT; ++t) hashes[t] = static_cast<size_t>(t);
    for (const auto &par : p.params) {
      if (par.rfind("hash=", 0) == 0) {
        int t = 1;
        size_t a = 5;
        while (a < par.size() && t < kMaxT) {
          size_t b = par.find(',', a);
          hashes[t++] = strtoul(par.substr(a, b == std::string::npos ? b : b - a).c_str(), nullptr, 10);
          if (b == std::string::npos) break;
          a = b + 1;
        }
      } else if (par == "epoch") {
        want_mgr = true;
      }
    }
    vrt::Log("{\"e\":\"cfg\",\"cap\":%d,\"ecap\":%d}", static_cast<int>(dbgroup::thread::kMaxThreadNum),
             static_cast<int>(EpochManager::kCapacity));
    if (want_mgr) {
      vrt::TrackAllocSize(0, "PN", true);  // every over-aligned allocation: ProtectedNode
      vrt::TrackMainThread(true);
      auto *raw = aligned_alloc(64, (sizeof(EpochManager) + 63) / 64 * 64);
      mgr = new (raw) EpochManager{};
      vrt::TrackMainThread(false);
      vrt::RegisterLoc(mgr, sizeof(EpochManager), "EM", "epoch");
    }
  }

  static std::string
  ListJson(const std::vector<size_t> &v)
  {
    std::string s = "[";
    for (size_t i = 0; i < v.size() && i < 40; ++i) {
      if (i) s += ',';
      s += std::to_string(static_cast<long>(v[i]));
    }
    return s + "]";
  }

  void
  RunOp(const vrt::Program &, int t, const vrt::Op &op) override
  {
    const std::string &k = op.f[0];
    if (k == "ID") {
      vrt::Log("{\"e\":\"idcall\",\"t\":%d}", t);
      auto id = static_cast<long>(IDManager::GetThreadID());
      own_hb[t] = IDManager::GetHeartBeat();
      int stale = 0;
      // (a heartbeat the client itself keeps locked cannot expire: that is the client's doing, not a stale heartbeat)
      for (int k = 0; k < 32; ++k) {
        auto &s = saved[k];
        if (s.used && s.id == id && s.owner != t && !s.hb.expired() && strong[k] == nullptr) ++stale;
      }
      vrt::Log("{\"e\":\"id\",\"t\":%d,\"id\":%ld,\"stale\":%d}", t, id, stale);
    } else if (k == "HB") {
      int slot = atoi(op.f[1].c_str());
      saved[slot].hb = IDManager::GetHeartBeat();
      saved[slot].owner = t;
      saved[slot].id = static_cast<long>(IDManager::GetThreadID());
      saved[slot].used = true;
      vrt::NoteWrite();
      vrt::Log("{\"e\":\"hbget\",\"t\":%d,\"k\":%d,\"id\":%ld,\"x\":%d}", t, slot, saved[slot].id, saved[slot].hb.expired());
    } else if (k == "HBL") {
      // the client keeps a locked (strong) reference to a heartbeat: legal use of the weak_ptr it was given
      int slot = atoi(op.f[1].c_str());
      strong[slot] = saved[slot].hb.lock();
      vrt::NoteWrite();
      vrt::Log("{\"e\":\"hblock\",\"t\":%d,\"k\":%d,\"got\":%d}", t, slot, strong[slot] != nullptr);
    } else if (k == "HBU") {
      int slot = atoi(op.f[1].c_str());
      strong[slot].reset();
      vrt::NoteWrite();
      vrt::Log("{\"e\":\"hbunlock\",\"t\":%d,\"k\":%d}", t, slot);
    } else if (k == "WAITHB") {
      int slot = atoi(op.f[1].c_str());
      vrt::BlockUntil([&] { return saved[slot].used; });
    } else if (k == "EXP") {
      int slot = atoi(op.f[1].c_str());
      vrt::Log("{\"e\":\"exp\",\"t\":%d,\"k\":%d,\"owner\":%d,\"x\":%d}", t, slot, saved[slot].owner, saved[slot].hb.expired());
    } else if (k == "BAR") {
      int b = atoi(op.f[1].c_str());
      int need = atoi(op.f[2].c_str());
      ++barrier_count[b];
      vrt::NoteWrite();
      vrt::BlockUntil([&] { return barrier_count[b] >= need; });
      vrt::Log("{\"e\":\"bar\",\"t\":%d,\"k\":%d}", t, b);
    } else if (k == "TURN") {
      int want = atoi(op.f[1].c_str());
      vrt::BlockUntil([&] { return turn == want; });
    } else if (k == "NEXT") {
      ++turn;
      vrt::NoteWrite();
    } else if (k == "G" || k == "GL") {
      vrt::Log("{\"e\":\"gcall\",\"t\":%d}", t);
      pin[t] = t;
      if (k == "G") {
        guard[t].emplace(mgr->CreateEpochGuard());
        list[t] = nullptr;
        vrt::Log("{\"e\":\"gret\",\"t\":%d,\"ep\":%ld,\"list\":[],\"haslist\":0}", t,
                 static_cast<long>(guard[t]->GetProtectedEpoch()));
      } else {
        auto &&[g, l] = mgr->GetProtectedEpochs();
        guard[t].emplace(std::move(g));
        list[t] = &l;
        if (vrt::IsFreed(list[t])) {
          vrt::Log("{\"e\":\"uaf\",\"t\":%d,\"loc\":\"%s\",\"site\":\"list-at-return\"}", t, vrt::LocName(list[t]).c_str());
          vrt::Log("{\"e\":\"gret\",\"t\":%d,\"ep\":%ld,\"list\":[],\"haslist\":0}", t,
                   static_cast<long>(guard[t]->GetProtectedEpoch()));
          list[t] = nullptr;
        } else {
          vrt::Log("{\"e\":\"gret\",\"t\":%d,\"ep\":%ld,\"list\":%s,\"haslist\":1}", t,
                   static_cast<long>(guard[t]->GetProtectedEpoch()), ListJson(*list[t]).c_str());
        }
      }
    } else if (k == "RL") {
      if (list[t] != nullptr) {
        if (vrt::IsFreed(list[t])) {
          vrt::Log("{\"e\":\"uaf\",\"t\":%d,\"loc\":\"%s\",\"site\":\"list-while-guarded\"}", t, vrt::LocName(list[t]).c_str());
        } else {
          vrt::Log("{\"e\":\"relist\",\"t\":%d,\"list\":%s}", t, ListJson(*list[t]).c_str());
        }
      }
    } else if (k == "MV") {
      // a live guard moved into a new object and move-assigned back: it must keep protecting its epoch
      if (guard[t].has_value()) {
        EpochGuard tmp{std::move(*guard[t])};
        vrt::YieldPoint();
        *guard[t] = std::move(tmp);
        vrt::Log("{\"e\":\"gmove\",\"t\":%d,\"ep\":%ld}", pin[t] ? pin[t] : t, static_cast<long>(guard[t]->GetProtectedEpoch()));
      }
    } else if (k == "GR") {
      // release idiom: overwrite the live guard by move assignment from an empty one
      vrt::Log("{\"e\":\"dcall\",\"t\":%d}", pin[t]);
      *guard[t] = EpochGuard{};
      list[t] = nullptr;
      vrt::Log("{\"e\":\"dret\",\"t\":%d}", pin[t]);
      pin[t] = 0;
      guard[t].reset();
    } else if (k == "D") {
      vrt::Log("{\"e\":\"dcall\",\"t\":%d}", pin[t] ? pin[t] : t);
      guard[t].reset();
      list[t] = nullptr;
      vrt::Log("{\"e\":\"dret\",\"t\":%d}", pin[t] ? pin[t] : t);
      pin[t] = 0;
    } else if (k == "GIVE") {
      // hand the guard object to another thread (the pin stays with the slot of the thread that created it)
      int b = atoi(op.f[1].c_str());
      vrt::Log("{\"e\":\"give\",\"t\":%d,\"k\":%d}", t, b);
      if (guard[t].has_value()) {
        mailbox[b].emplace(std::move(*guard[t]));
        guard[t].reset();
      }
      mpin[b] = pin[t];
      pin[t] = 0;
      list[t] = nullptr;
      vrt::NoteWrite();
    } else if (k == "TAKE") {
      // move-assign the handed-over guard onto the own guard variable: a live guard that is overwritten stops pinning
      int b = atoi(op.f[1].c_str());
      vrt::BlockUntil([&] { return mailbox[b].has_value(); });
      vrt::Log("{\"e\":\"give\",\"t\":%d,\"k\":%d}", t, b);
      if (guard[t].has_value()) {
        if (pin[t]) vrt::Log("{\"e\":\"dcall\",\"t\":%d}", pin[t]);
        *guard[t] = std::move(*mailbox[b]);
        if (pin[t]) vrt::Log("{\"e\":\"dret\",\"t\":%d}", pin[t]);
      } else {
        guard[t].emplace(std::move(*mailbox[b]));
      }
      mailbox[b].reset();
      pin[t] = mpin[b];
      list[t] = nullptr;
      vrt::NoteWrite();
    } else if (k == "F" || k == "FQ") {
      int n = k == "FQ" ? atoi(op.f[1].c_str()) : 1;
      if (k == "FQ") vrt::SetNoBranch(true);
      for (int i = 0; i < n; ++i) {
        vrt::Log("{\"e\":\"fcall\",\"t\":%d}", t);
        mgr->ForwardGlobalEpoch();
        vrt::Log("{\"e\":\"fdone\",\"t\":%d}", t);
        auto cur = static_cast<long>(mgr->GetCurrentEpoch());
        auto mn = static_cast<long>(mgr->GetMinEpoch());
        if (k == "F") {
          auto &&[g, l] = mgr->GetProtectedEpochs();
          vrt::Log("{\"e\":\"fobs\",\"t\":%d,\"cur\":%ld,\"min\":%ld,\"list\":%s,\"haslist\":1,\"pn\":%d}", t, cur, mn,
                   ListJson(l).c_str(), vrt::LiveTracked("PN"));
        } else {
          vrt::Log("{\"e\":\"fobs\",\"t\":%d,\"cur\":%ld,\"min\":%ld,\"list\":[],\"haslist\":0,\"pn\":%d}", t, cur, mn,
                   vrt::LiveTracked("PN"));
        }
      }
      if (k == "FQ") vrt::SetNoBranch(false);
    } else if (k == "CUR") {
      vrt::Log("{\"e\":\"cur\",\"t\":%d,\"v\":%ld}", t, static_cast<long>(mgr->GetCurrentEpoch()));
    } else if (k == "MIN") {
      vrt::Log("{\"e\":\"min\",\"t\":%d,\"v\":%ld}", t, static_cast<long>(mgr->GetMinEpoch()));
    } else {
      fprintf(stderr, "unknown op %s\n", k.c_str());
      _exit(4);
    }
  }

  void
  ThreadEnd(const vrt::Program &, int t) override
  {
    guard[t].reset();
  }

  void
  Finish(const vrt::Program &) override
  {
    if (mgr != nullptr) {
      vrt::TrackMainThread(true);
      mgr->~EpochManager();
      vrt::TrackMainThread(false);
      vrt::Log("{\"e\":\"mgrdead\",\"pn\":%d}", vrt::LiveTracked("PN"));
    }
  }
};
ThreadDriver *ThreadDriver::self = nullptr;
}  // namespace

int
main(int argc, char **argv)
{
  ThreadDriver d;
  return vrt::Main(argc, argv, d);
}
