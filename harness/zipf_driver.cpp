// Driver for the Zipf generators (C06, C19).  No scheduler is needed; the program links the harness
// runtime only for the shim symbols.  Output: ndjson records for ZipfTrace / ZipfAbsTrace.
#include <atomic>
#include <chrono>
#include <cinttypes>
#include <cmath>
#include <cstring>
#include <memory>
#include <mutex>
#include <random>
#include <thread>

#include "dbgroup/random/zipf.hpp"
#include "rt.hpp"

using dbgroup::random::ApproxZipfDistribution;
using dbgroup::random::ZipfDistribution;

namespace
{
// an engine whose outputs are chosen by the harness
struct Fixed {
  using result_type = uint64_t;
  uint64_t x;
  static constexpr result_type min() { return 0; }
  static constexpr result_type max() { return UINT64_MAX; }
  result_type operator()() { return x; }
};

double
Variate(uint64_t x)
{
  Fixed e{x};
  std::uniform_real_distribution<double> d{0.0, 1.0};
  return d(e);
}

FILE *out = stdout;
long n_samples = 0;

template <class T> const char *TyName();
template <> const char *TyName<uint32_t>() { return "u32"; }
template <> const char *TyName<uint64_t>() { return "u64"; }
template <> const char *TyName<int32_t>() { return "i32"; }
template <> const char *TyName<int64_t>() { return "i64"; }

template <class T>
std::string
Dec(T v)
{
  return std::to_string(v);
}

// one sample: run the generator on engine output x and log what C06 talks about
template <class Gen, class T>
void
Sample(const Gen &gen, const char *cls, T mn, T mx, double alpha, uint64_t x, const char *kind)
{
  Fixed e{x};
  const T v = gen(e);
  const double u = Variate(x);
  using W = __int128;
  const W n = static_cast<W>(mx) - static_cast<W>(mn) + 1;
  const W idx = static_cast<W>(v) - static_cast<W>(mn);
  const bool inr = static_cast<W>(v) >= static_cast<W>(mn) && static_cast<W>(v) <= static_cast<W>(mx);
  bool lo = true, hi = false;
  std::string tab = "[]";
  long ru = -1;
  if (inr) {
    if (idx > 0) lo = gen.GetCDF(static_cast<T>(idx - 1)) <= u;
    hi = u <= gen.GetCDF(static_cast<T>(idx));
  }
  if (n <= 16) {
    // order abstraction: ranks of the table entries and of u among the distinct values
    std::vector<double> vals;
    for (W k = 0; k < n; ++k) vals.push_back(gen.GetCDF(static_cast<T>(k)));
    std::vector<double> all = vals;
    all.push_back(u);
    std::sort(all.begin(), all.end());
    all.erase(std::unique(all.begin(), all.end()), all.end());
    auto rank = [&](double d) { return static_cast<long>(std::lower_bound(all.begin(), all.end(), d) - all.begin()) + 1; };
    tab = "[";
    for (size_t k = 0; k < vals.size(); ++k) tab += (k ? "," : "") + std::to_string(rank(vals[k]));
    tab += "]";
    ru = rank(u);
  }
  const long n31 = n > 2000000000 ? -1 : static_cast<long>(n);
  const long i31 = (idx < 0 || idx > 2000000000) ? -1 : static_cast<long>(idx);
  fprintf(out,
          "{\"e\":\"s\",\"cls\":\"%s\",\"ty\":\"%s\",\"min\":\"%s\",\"max\":\"%s\",\"alpha\":\"%.17g\",\"x\":\"%" PRIu64
          "\",\"v\":\"%s\",\"kind\":\"%s\",\"n\":%ld,\"i\":%ld,\"inr\":%d,\"lo\":%d,\"hi\":%d,\"tab\":%s,\"ru\":%ld}\n",
          cls, TyName<T>(), Dec(mn).c_str(), Dec(mx).c_str(), alpha, x, Dec(v).c_str(), kind, n31, i31, inr, lo, hi, tab.c_str(), ru);
  ++n_samples;
}

// engine outputs whose variate is exactly c, one ulp below and one ulp above c
void
Around(double c, std::vector<std::pair<uint64_t, const char *>> &xs)
{
  auto conv = [](double d) -> uint64_t {
    if (d <= 0.0) return 0;
    long double y = static_cast<long double>(d) * 18446744073709551616.0L;
    if (y >= 18446744073709551615.0L) return UINT64_MAX;
    return static_cast<uint64_t>(y);
  };
  xs.emplace_back(conv(c), "on");
  xs.emplace_back(conv(std::nextafter(c, 0.0)), "below");
  xs.emplace_back(conv(std::nextafter(c, 2.0)), "above");
}

template <class Gen, class T>
void
Exercise(const char *cls, T mn, T mx, double alpha, std::mt19937_64 &rng, int nrand, bool dense)
{
  Gen gen{mn, mx, alpha};
  using W = __int128;
  const W n = static_cast<W>(mx) - static_cast<W>(mn) + 1;
  std::vector<W> ks;
  if (n <= 128 && dense) {
    for (W k = 0; k < n; ++k) ks.push_back(k);
  } else {
    for (W k : {W(0), W(1), W(2), W(97), W(98), W(99), W(100), W(101), W(102), n / 2, n - 3, n - 2, n - 1})
      if (k >= 0 && k < n) ks.push_back(k);
    for (int r = 0; r < 12; ++r) ks.push_back(static_cast<W>(rng() % static_cast<uint64_t>(n > 4000000000LL ? 4000000000LL : n)));
  }
  std::vector<std::pair<uint64_t, const char *>> xs;
  for (W k : ks) Around(gen.GetCDF(static_cast<T>(k)), xs);
  xs.emplace_back(0, "ext");
  xs.emplace_back(1, "ext");
  xs.emplace_back(UINT64_MAX, "ext");
  xs.emplace_back(UINT64_MAX - 1, "ext");
  xs.emplace_back(UINT64_MAX - 1024, "ext");
  xs.emplace_back(UINT64_MAX - 2048, "ext");
  xs.emplace_back(1ULL << 63U, "ext");
  for (int r = 0; r < nrand; ++r) xs.emplace_back(rng(), "rand");
  for (auto &[x, kind] : xs) Sample<Gen, T>(gen, cls, mn, mx, alpha, x, kind);
}

template <class T>
void
GridC06(std::mt19937_64 &rng, bool thorough)
{
  using L = std::numeric_limits<T>;
  std::vector<double> alphas = {0.0, 0.5, 0.99, 1.0, 1.5, 3.0};
  if (thorough) alphas.insert(alphas.end(), {0.1, 0.3, 0.8, 1.2, 2.0, 8.0, 40.0});
  std::vector<long> bins = {1, 2, 3, 7, 16, 99, 100, 101, 102, 1000};
  if (thorough) bins.insert(bins.end(), {4, 5, 11, 50, 128, 129, 2500, 65537});
  for (double a : alphas) {
    for (long b : bins) {
      std::vector<std::pair<T, T>> ranges;
      ranges.emplace_back(static_cast<T>(0), static_cast<T>(b - 1));
      ranges.emplace_back(static_cast<T>(12345), static_cast<T>(12345 + b - 1));
      ranges.emplace_back(static_cast<T>(L::max() - (b - 1)), L::max());
      if (L::is_signed) {
        ranges.emplace_back(static_cast<T>(L::min()), static_cast<T>(L::min() + (b - 1)));
        ranges.emplace_back(static_cast<T>(-(b / 2)), static_cast<T>(-(b / 2) + (b - 1)));
      }
      for (auto &[mn, mx] : ranges) {
        const bool dense = b <= 128;
        Exercise<ZipfDistribution<T>, T>("Z", mn, mx, a, rng, thorough ? 24 : 6, dense);
        Exercise<ApproxZipfDistribution<T>, T>("A", mn, mx, a, rng, thorough ? 24 : 6, dense);
      }
    }
    // large bin counts: only the approximate class (the exact class would need n doubles)
    for (long b : {100000L, 1000003L}) {
      Exercise<ApproxZipfDistribution<T>, T>("A", static_cast<T>(7), static_cast<T>(7 + b - 1), a, rng, thorough ? 24 : 6, false);
      if (thorough) Exercise<ZipfDistribution<T>, T>("Z", static_cast<T>(7), static_cast<T>(7 + b - 1), a, rng, 12, false);
    }
  }
  // the seam of the approximate class (bins 0..99 from a table, the rest from a formula): variates on / next to
  // GetCDF(99) and GetCDF(100) for many bin counts - whether the binary search probes bin 100 itself depends on n
  {
    std::vector<long> ns;
    for (long n = 101; n <= (thorough ? 1200 : 400); ++n) ns.push_back(n);
    for (long n = 401; n < 400000; n = n * (thorough ? 21 : 11) / (thorough ? 20 : 10) + 1) ns.push_back(n);
    for (long n : ns) {
      for (double a : {0.5, 1.0, 2.0, 3.0}) {
        const T mn = static_cast<T>(3);
        const T mx = static_cast<T>(3 + n - 1);
        ApproxZipfDistribution<T> gen{mn, mx, a};
        std::vector<std::pair<uint64_t, const char *>> xs;
        Around(gen.GetCDF(static_cast<T>(99)), xs);
        Around(gen.GetCDF(static_cast<T>(100)), xs);
        for (auto &[x, kind] : xs) Sample<ApproxZipfDistribution<T>, T>(gen, "A", mn, mx, a, x, "seam");
      }
    }
  }
  // default-constructed generators always return 0
  {
    ZipfDistribution<T> z{};
    ApproxZipfDistribution<T> az{};
    bool ok = true;
    for (uint64_t x : {uint64_t{0}, uint64_t{1} << 63U, UINT64_MAX, rng(), rng()}) {
      Fixed e1{x}, e2{x};
      ok = ok && z(e1) == 0 && az(e2) == 0;
    }
    fprintf(out, "{\"e\":\"dflt\",\"ty\":\"%s\",\"zero\":%d}\n", TyName<T>(), ok);
  }
}

// ---- C19 ------------------------------------------------------------------------------------------
std::mutex log_mu;

template <class Gen, class T>
void
Seq(const Gen &g, const char *cls, T mn, T mx, double alpha, const char *who, uint64_t seed, int len)
{
  std::mt19937_64 eng{seed};
  std::string s;
  for (int k = 0; k < len; ++k) {
    T v = g(eng);
    char b[256];
    snprintf(b, sizeof(b), "{\"e\":\"samp\",\"cls\":\"%s\",\"ty\":\"%s\",\"min\":\"%s\",\"max\":\"%s\",\"alpha\":\"%.17g\",\"who\":\"%s\",\"seed\":%" PRIu64 ",\"k\":%d,\"v\":\"%s\"}\n",
             cls, TyName<T>(), Dec(mn).c_str(), Dec(mx).c_str(), alpha, who, seed, k, Dec(v).c_str());
    s += b;
  }
  std::lock_guard lk(log_mu);
  fputs(s.c_str(), out);
}

// a long sequence, logged sparsely: every `step`-th value together with a rolling hash of everything before it
template <class Gen, class T>
void
LongSeq(const Gen &g, const char *cls, T mn, T mx, double alpha, const char *who, uint64_t seed, int len, int step)
{
  std::mt19937_64 eng{seed};
  std::string s;
  uint32_t h = 2166136261U;
  for (int k = 0; k < len; ++k) {
    T v = g(eng);
    h = (h ^ static_cast<uint32_t>(static_cast<uint64_t>(v) ^ (static_cast<uint64_t>(v) >> 32U))) * 16777619U;
    if (k % step != step - 1) continue;
    char b[288];
    snprintf(b, sizeof(b), "{\"e\":\"samp\",\"cls\":\"%s\",\"ty\":\"%s\",\"min\":\"%s\",\"max\":\"%s\",\"alpha\":\"%.17g\",\"who\":\"%s\",\"seed\":%" PRIu64 ",\"k\":%d,\"v\":\"%s#%u\"}\n",
             cls, TyName<T>(), Dec(mn).c_str(), Dec(mx).c_str(), alpha, who, seed, 1000000 + k, Dec(v).c_str(), h & 0x7FFFFFFFU);
    s += b;
  }
  std::lock_guard lk(log_mu);
  fputs(s.c_str(), out);
}

template <class Gen, class T>
void
Purity(const char *cls, T mn, T mx, double alpha, uint64_t seed, int len, int nthreads)
{
  Gen a{mn, mx, alpha};
  Gen b{mn, mx, alpha};
  {
    // "calling a generator does not change it": the object representation is the same before and after sampling
    unsigned char before[sizeof(Gen)];
    memcpy(before, static_cast<const void *>(&a), sizeof(Gen));
    std::mt19937_64 eng{seed ^ 0x5bd1e995U};
    for (int k = 0; k < 64; ++k) (void)a(eng);
    const bool same = memcmp(before, static_cast<const void *>(&a), sizeof(Gen)) == 0;
    fprintf(out, "{\"e\":\"bytes\",\"cls\":\"%s\",\"ty\":\"%s\",\"min\":\"%s\",\"max\":\"%s\",\"alpha\":\"%.17g\",\"same\":%d}\n", cls,
            TyName<T>(), Dec(mn).c_str(), Dec(mx).c_str(), alpha, same);
  }
  Seq<Gen, T>(a, cls, mn, mx, alpha, "orig", seed, len);
  Seq<Gen, T>(a, cls, mn, mx, alpha, "again", seed, len);          // calling it did not change it
  Seq<Gen, T>(b, cls, mn, mx, alpha, "equal", seed, len);          // equal parameters
  Gen c{a};
  Seq<Gen, T>(c, cls, mn, mx, alpha, "copy", seed, len);
  Gen d{};
  d = a;
  Seq<Gen, T>(d, cls, mn, mx, alpha, "copy-assigned", seed, len);
  Gen m{std::move(c)};
  Seq<Gen, T>(m, cls, mn, mx, alpha, "moved", seed, len);
  Gen m2{};
  m2 = std::move(d);
  Seq<Gen, T>(m2, cls, mn, mx, alpha, "move-assigned", seed, len);
  Seq<Gen, T>(a, cls, mn, mx, alpha, "orig-after-copies", seed, len);
  {
    // a copy must not depend on its source: the source is re-assigned / destroyed while the copy is still in use
    auto src = std::make_unique<Gen>(mn, mx, alpha);
    Gen cp{*src};
    Gen cp2{};
    cp2 = *src;
    *src = Gen{mn, static_cast<T>(mn + (mx - mn) / 2), alpha + 0.75};
    Seq<Gen, T>(cp, cls, mn, mx, alpha, "copy-source-reassigned", seed, len);
    src.reset();
    std::vector<std::unique_ptr<Gen>> churn;   // reuse the freed memory
    for (int k = 0; k < 4; ++k) churn.emplace_back(std::make_unique<Gen>(mn, mx, alpha + 1.5 + k));
    Seq<Gen, T>(cp, cls, mn, mx, alpha, "copy-source-destroyed", seed, len);
    Seq<Gen, T>(cp2, cls, mn, mx, alpha, "copy-assigned-source-destroyed", seed, len);
    Gen mv{std::move(cp)};
    Seq<Gen, T>(mv, cls, mn, mx, alpha, "moved-copy-source-destroyed", seed, len);
  }
  // one const generator shared by threads with private engines
  const Gen &shared = a;
  std::vector<std::thread> th;
  for (int t = 0; t < nthreads; ++t) {
    th.emplace_back([&, t] { Seq<Gen, T>(shared, cls, mn, mx, alpha, "thread", seed + static_cast<uint64_t>(t % 2), len * 4); });
  }
  for (auto &x : th) x.join();
  // the same under real contention: long runs of all threads from one seed against the solo run
  const int llen = 20000;
  LongSeq<Gen, T>(a, cls, mn, mx, alpha, "solo-long", seed, llen, 2500);
  std::vector<std::thread> th2;
  for (int t = 0; t < nthreads; ++t) th2.emplace_back([&] { LongSeq<Gen, T>(shared, cls, mn, mx, alpha, "thread-long", seed, llen, 2500); });
  for (auto &x : th2) x.join();
}

template <class Gen, class T>
void
Construct(const char *cls, T mn, T mx, double alpha)
{
  bool threw = false;
  fprintf(out, "{\"e\":\"cons_begin\",\"cls\":\"%s\",\"ty\":\"%s\",\"min\":\"%s\",\"max\":\"%s\"}\n", cls, TyName<T>(), Dec(mn).c_str(),
          Dec(mx).c_str());
  fflush(out);
  try {
    Gen g{mn, mx, alpha};
    (void)g;
  } catch (const std::exception &) {
    threw = true;
  }
  fprintf(out, "{\"e\":\"cons\",\"cls\":\"%s\",\"ty\":\"%s\",\"min\":\"%s\",\"max\":\"%s\",\"alpha\":\"%.17g\",\"threw\":%d}\n", cls,
          TyName<T>(), Dec(mn).c_str(), Dec(mx).c_str(), alpha, threw);
}

template <class T>
void
GridC19Cons()
{
  using L = std::numeric_limits<T>;
  // constructions: max < min must throw, everything else must not
  std::vector<std::pair<T, T>> cons = {{0, 0}, {1, 0}, {5, 3}, {3, 5}, {7, 6}, {L::max(), L::min()}, {L::max(), static_cast<T>(L::max() - 1)},
                                       {static_cast<T>(L::min() + 1), L::min()}, {10, 10}, {100, 2}, {2, 100}};
  if (L::is_signed) {
    cons.emplace_back(static_cast<T>(-1), static_cast<T>(-2));
    cons.emplace_back(static_cast<T>(-2), static_cast<T>(-1));
    cons.emplace_back(static_cast<T>(0), static_cast<T>(-1));
    cons.emplace_back(static_cast<T>(1), static_cast<T>(-1));
  }
  for (auto &[mn, mx] : cons)
    for (double a : {0.0, 1.0}) {
      Construct<ZipfDistribution<T>, T>("Z", mn, mx, a);
      Construct<ApproxZipfDistribution<T>, T>("A", mn, mx, a);
    }
}

// several threads construct generators with equal parameters at the same time and sample at once: every one of them is
// the same function as a generator built alone
template <class Gen, class T>
void
ConcurrentConstruction(const char *cls, T mn, T mx, double alpha, uint64_t seed, int len, int nthreads)
{
  {
    Gen solo{mn, mx, alpha};
    Seq<Gen, T>(solo, cls, mn, mx, alpha, "built-alone", seed, len);
  }
  std::atomic<int> ready{0};
  std::vector<std::thread> th;
  for (int t = 0; t < nthreads; ++t) {
    th.emplace_back([&, t] {
      ++ready;
      while (ready.load() < nthreads) {}
      if (t % 2) {  // staggered starts (busy wait: the shim turns sleeps into scheduler notifications)
        const auto until = std::chrono::steady_clock::now() + std::chrono::microseconds(200 * t);
        while (std::chrono::steady_clock::now() < until) {}
      }
      try {
        Gen g{mn, mx, alpha};
        Seq<Gen, T>(g, cls, mn, mx, alpha, "built-concurrently", seed, len);
      } catch (const std::exception &) {
        std::lock_guard lk(log_mu);
        fprintf(out, "{\"e\":\"samp\",\"cls\":\"%s\",\"ty\":\"%s\",\"min\":\"%s\",\"max\":\"%s\",\"alpha\":\"%.17g\",\"who\":\"built-concurrently\",\"seed\":%" PRIu64 ",\"k\":0,\"v\":\"threw\"}\n",
                cls, TyName<T>(), Dec(mn).c_str(), Dec(mx).c_str(), alpha, seed);
      }
    });
  }
  for (auto &x : th) x.join();
}

template <class T>
void
GridC19(std::mt19937_64 &rng, bool thorough)
{
  using L = std::numeric_limits<T>;
  const int len = thorough ? 40 : 12;
  const int nthreads = thorough ? 8 : 4;
  std::vector<double> alphas = {0.0, 1.0, 2.5};
  std::vector<std::pair<T, T>> ranges = {{0, 0}, {0, 9}, {5, 104}, {3, 1002}, {static_cast<T>(L::max() - 150), L::max()}};
  if (L::is_signed) ranges.emplace_back(static_cast<T>(-50), static_cast<T>(60));
  if (thorough) ranges.emplace_back(static_cast<T>(1), static_cast<T>(100000));
  for (double a : alphas)
    for (auto &[mn, mx] : ranges) {
      uint64_t seed = rng();
      Purity<ZipfDistribution<T>, T>("Z", mn, mx, a, seed, len, nthreads);
      Purity<ApproxZipfDistribution<T>, T>("A", mn, mx, a, seed, len, nthreads);
    }
  for (int rep = 0; rep < (thorough ? 6 : 2); ++rep) {
    ConcurrentConstruction<ZipfDistribution<T>, T>("Z", static_cast<T>(1), static_cast<T>(1500000 + rep), 0.9, rng(), len, nthreads);
    ConcurrentConstruction<ApproxZipfDistribution<T>, T>("A", static_cast<T>(1), static_cast<T>(30000000 + rep), 0.9, rng(), len, nthreads);
  }
}
// ---- C18 ------------------------------------------------------------------------------------------
// CDF tables of the exact and the approximate class for one parameter tuple, as fixed-point integers TLC can compare:
// q30 = floor(cdf * 2^30) (1.0 is exactly 2^30), q13 = round(cdf * 2^13) for the coarse reference computation, and the
// four 16-bit quarters of the IEEE representation for bit-exact comparisons.
static std::string
Quarters(double d)
{
  uint64_t u;
  memcpy(&u, &d, sizeof(u));
  char b[64];
  snprintf(b, sizeof(b), "[%u,%u,%u,%u]", static_cast<unsigned>(u >> 48U), static_cast<unsigned>((u >> 32U) & 0xFFFFU),
           static_cast<unsigned>((u >> 16U) & 0xFFFFU), static_cast<unsigned>(u & 0xFFFFU));
  return b;
}

static long
Q(double d, int bits)
{
  if (!(d == d)) return -2;          // NaN
  if (d < 0.0) return -1;
  if (d > 1.0) return (1L << bits) + 1;
  return bits == 30 ? static_cast<long>(std::floor(std::ldexp(d, bits))) : std::lround(std::ldexp(d, bits));
}

template <class T>
void
Table(T mn, long n, double alpha, int alpha10, bool with_exact, const std::vector<long> &ks)
{
  const T mx = static_cast<T>(mn + static_cast<T>(n - 1));
  ApproxZipfDistribution<T> ap{mn, mx, alpha};
  std::string sk = "[", se = "[", sa = "[", s13 = "[", qe = "[", qa = "[";
  if (with_exact) {
    ZipfDistribution<T> ex{mn, mx, alpha};
    for (size_t i = 0; i < ks.size(); ++i) {
      const char *c = i ? "," : "";
      const double e = ex.GetCDF(static_cast<T>(ks[i])), a = ap.GetCDF(static_cast<T>(ks[i]));
      sk += c + std::to_string(ks[i]);
      se += c + std::to_string(Q(e, 30));
      sa += c + std::to_string(Q(a, 30));
      s13 += c + std::to_string(Q(e, 13));
      if (n <= 128) { qe += c + Quarters(e); qa += c + Quarters(a); }
    }
  } else {
    for (size_t i = 0; i < ks.size(); ++i) {
      const char *c = i ? "," : "";
      sk += c + std::to_string(ks[i]);
      sa += c + std::to_string(Q(ap.GetCDF(static_cast<T>(ks[i])), 30));
    }
  }
  fprintf(out, "{\"e\":\"tab\",\"ty\":\"%s\",\"min\":\"%s\",\"n\":%ld,\"alpha\":\"%.17g\",\"a100\":%d,\"hasex\":%d,\"ks\":%s],\"ex\":%s],\"ap\":%s],\"ex13\":%s],\"exq\":%s],\"apq\":%s]}\n",
          TyName<T>(), Dec(mn).c_str(), n, alpha, alpha10, with_exact, sk.c_str(), se.c_str(), sa.c_str(), s13.c_str(), qe.c_str(), qa.c_str());
}

template <class T>
void
GridC18(std::mt19937_64 &rng, bool thorough)
{
  // alpha in hundredths: the grid straddles 1 (where the approximation switches formulas) and reaches exponents whose tail
  // terms vanish in double precision
  std::vector<int> a10s = {0, 50, 96, 100, 104, 150, 200, 300, 800, 2000};
  if (thorough) a10s.insert(a10s.end(), {10, 30, 80, 90, 99, 101, 110, 120, 250, 400, 4000});
  std::vector<long> small = {1, 2, 3, 4, 5, 7, 8, 12, 16, 50, 99, 100, 101};
  if (thorough) small.insert(small.end(), {6, 9, 10, 11, 13, 14, 15, 33, 64, 128, 129, 300});
  for (int a10 : a10s) {
    const double alpha = a10 / 100.0;
    for (long n : small) {
      std::vector<long> ks;
      for (long k = 0; k < n; ++k) ks.push_back(k);
      for (T mn : {static_cast<T>(0), static_cast<T>(1000)}) Table<T>(mn, n, alpha, a10, true, ks);
    }
    // n >= 1000: every bin up to 5000 bins, a dense sample beyond
    std::vector<long> large = {1000, 1001, 1002, 1050, 1099, 1100, 1101, 1199, 1501, 1999, 5000};
    if (thorough) {
      for (long n = 1003; n < 1400; n += 3) large.push_back(n);
      large.insert(large.end(), {2048, 2101, 3001, 10001, 20000, 100000});
    }
    for (long n : large) {
      std::vector<long> ks;
      if (n <= 5000) {
        for (long k = 0; k < n; ++k) ks.push_back(k);
      } else {
        for (long k = 0; k < 300; ++k) ks.push_back(k);
        for (int r = 0; r < 1500; ++r) ks.push_back(300 + static_cast<long>(rng() % static_cast<uint64_t>(n - 300)));
        for (long k = n - 200; k < n; ++k) ks.push_back(k);
        std::sort(ks.begin(), ks.end());
        ks.erase(std::unique(ks.begin(), ks.end()), ks.end());
      }
      Table<T>(static_cast<T>(0), n, alpha, a10, true, ks);
    }
    // the approximate class alone on bin counts the exact class cannot hold: the last bin must still be exactly 1
    for (long n : {1000000L, 50000000L}) {
      std::vector<long> ks = {0, 1, 50, 99, 100, 101, n / 2, n - 2, n - 1};
      Table<T>(static_cast<T>(0), n, alpha, a10, false, ks);
    }
  }
}
}  // namespace

int
main(int argc, char **argv)
{
  std::string mode = argc > 1 ? argv[1] : "";
  uint64_t seed = 0;
  bool thorough = false;
  for (int i = 2; i < argc; ++i) {
    std::string a = argv[i];
    if (a == "--seed" && i + 1 < argc) seed = strtoull(argv[++i], nullptr, 10);
    else if (a == "--tier" && i + 1 < argc) thorough = std::string(argv[++i]) == "thorough";
    else if (a == "--out" && i + 1 < argc) out = fopen(argv[++i], "w");
  }
  if (!out) return 2;
  std::mt19937_64 rng{seed * 2654435761ULL + 12345};
  if (mode == "c06") {
    GridC06<uint32_t>(rng, thorough);
    GridC06<uint64_t>(rng, thorough);
    GridC06<int32_t>(rng, thorough);
    GridC06<int64_t>(rng, thorough);
  } else if (mode == "c19") {
    GridC19<uint32_t>(rng, thorough);
    GridC19<uint64_t>(rng, thorough);
    GridC19<int32_t>(rng, thorough);
    GridC19<int64_t>(rng, thorough);
  } else if (mode == "c18") {
    GridC18<uint32_t>(rng, thorough);
    GridC18<int64_t>(rng, thorough);
    if (thorough) { GridC18<uint64_t>(rng, thorough); GridC18<int32_t>(rng, thorough); }
  } else if (mode == "c19cons") {
    GridC19Cons<uint32_t>();
    GridC19Cons<uint64_t>();
    GridC19Cons<int32_t>();
    GridC19Cons<int64_t>();
  } else {
    fprintf(stderr, "usage: zipfh c06|c19 [--seed S] [--tier quick|thorough] [--out F]\n");
    return 2;
  }
  fclose(out);
  return 0;
}
