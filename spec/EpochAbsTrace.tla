---------------------------- MODULE EpochAbsTrace ----------------------------
(***************************************************************************)
(* Level 1 for EpochManager, bound to real executions (B2).  One           *)
(* coordinator calls ForwardGlobalEpoch (fcall .. fdone, then observes     *)
(* current/min/list: fobs); workers create guards (gcall .. gret), read    *)
(* the protected list again (relist), drop guards (dcall .. dret) and read *)
(* GetCurrentEpoch / GetMinEpoch (cur, min).                               *)
(*   CkPin  C04  a guard complete before fcall and alive at fdone is in    *)
(*               the list published for the new epoch, min <= its epoch    *)
(*   CkMono C16  +1 per forward, monotone reads, min <= current, a forward *)
(*               with no guard around publishes exactly {cur, cur-1}       *)
(*   CkList C17  the list handed to a guard holder: strictly descending,   *)
(*               head = its epoch, contains epoch-1, stable, never freed   *)
(*   CkSeq  C20  a forward with nothing concurrent publishes exactly       *)
(*               {cur, cur-1} \cup pinned, min = smallest, bounded nodes,   *)
(*               destruction frees everything                              *)
(***************************************************************************)
EXTENDS Naturals, Integers, Sequences, FiniteSets, SequencesExt, TLC, Json, IOUtils

CONSTANTS Threads, CkPin, CkMono, CkList, CkSeq

Tr == ndJsonDeserialize(IOEnv.TRACE)

VARIABLES l, ecap, global, fwd, g, atstart, mustpin, quiet, conc, seen, mseen, glist
vars == <<l, ecap, global, fwd, g, atstart, mustpin, quiet, conc, seen, mseen, glist>>

NoGuard == [st |-> "none", ep |-> 0, lo |-> 0, gen |-> 0]
Clean == /\ global = ecap /\ fwd = "idle"
         /\ g = [t \in Threads |-> NoGuard]
         /\ atstart = {} /\ mustpin = {} /\ quiet = TRUE /\ conc = FALSE /\ seen = 0 /\ mseen = 0
         /\ glist = [t \in Threads |-> <<>>]
Init == l = 1 /\ ecap = 256 /\ Clean /\ TLCSet(1, 1)

Ev == Tr[l]
IsEv(k) == l <= Len(Tr) /\ Tr[l].e = k
Adv == l' = l + 1
Busy == \E t \in Threads : g[t].st # "none"
\* any worker event while a forward is in progress makes that forward non-sequential / non-quiescent
Touch == /\ conc' = (conc \/ fwd = "active")
         /\ quiet' = (quiet /\ fwd # "active")
MaxCur == global + (IF fwd = "active" THEN 1 ELSE 0)

RangeOf(s) == {s[i] : i \in 1..Len(s)}
Desc(s) == \A i \in 1..(Len(s) - 1) : s[i] > s[i + 1]
SortDesc(S) == SetToSortSeq(S, LAMBDA a, b : a > b)
Live == {t \in Threads : g[t].st \in {"live", "dropping"}}

Cfg == /\ IsEv("cfg") /\ ecap' = Ev.ecap /\ global' = Ev.ecap
       /\ Adv /\ UNCHANGED <<fwd, g, atstart, mustpin, quiet, conc, seen, mseen, glist>>

GCall == /\ IsEv("gcall") /\ g[Ev.t].st = "none"
         /\ g' = [g EXCEPT ![Ev.t] = [st |-> "creating", ep |-> 0, lo |-> global, gen |-> g[Ev.t].gen + 1]]
         /\ Touch
         /\ Adv /\ UNCHANGED <<ecap, global, fwd, atstart, mustpin, seen, mseen, glist>>

GRet == /\ IsEv("gret") /\ g[Ev.t].st = "creating"
        \* the guard reports an epoch that was current at some instant of the call
        /\ (CkMono \/ CkPin) => (Ev.ep >= g[Ev.t].lo /\ Ev.ep <= MaxCur)
        /\ (CkList /\ Ev.haslist = 1) =>
              /\ Len(Ev.list) >= 1 /\ Desc(Ev.list) /\ Ev.list[1] = Ev.ep
              /\ (Ev.ep > ecap => (Ev.ep - 1) \in RangeOf(Ev.list))
        /\ g' = [g EXCEPT ![Ev.t] = [@ EXCEPT !.st = "live", !.ep = Ev.ep]]
        /\ glist' = [glist EXCEPT ![Ev.t] = IF Ev.haslist = 1 THEN Ev.list ELSE <<>>]
        /\ Touch
        /\ Adv /\ UNCHANGED <<ecap, global, fwd, atstart, mustpin, seen, mseen>>

ReList == /\ IsEv("relist") /\ g[Ev.t].st = "live"
          /\ CkList => Ev.list = glist[Ev.t]                         \* unchanged while the guard lives
          /\ Touch
          /\ Adv /\ UNCHANGED <<ecap, global, fwd, g, atstart, mustpin, seen, mseen, glist>>

\* the harness saw the list node (or the list) of a live guard freed: never legal under CkList
Uaf == /\ IsEv("uaf") /\ ~CkList
       /\ Touch
       /\ Adv /\ UNCHANGED <<ecap, global, fwd, g, atstart, mustpin, seen, mseen, glist>>

DCall == /\ IsEv("dcall") /\ g[Ev.t].st = "live"
         /\ g' = [g EXCEPT ![Ev.t] = [@ EXCEPT !.st = "dropping"]]
         /\ Touch
         /\ Adv /\ UNCHANGED <<ecap, global, fwd, atstart, mustpin, seen, mseen, glist>>
DRet == /\ IsEv("dret") /\ g[Ev.t].st = "dropping"
        /\ g' = [g EXCEPT ![Ev.t] = [@ EXCEPT !.st = "none"]]
        /\ Touch
        /\ Adv /\ UNCHANGED <<ecap, global, fwd, atstart, mustpin, seen, mseen, glist>>

FCall == /\ IsEv("fcall") /\ fwd \in {"idle", "done"}
         /\ fwd' = "active"
         /\ atstart' = {<<t, g[t].gen>> : t \in {u \in Threads : g[u].st = "live"}}
         /\ quiet' = ~Busy
         /\ conc' = FALSE
         /\ mustpin' = {}
         /\ Adv /\ UNCHANGED <<ecap, global, g, seen, mseen, glist>>
FDone == /\ IsEv("fdone") /\ fwd = "active"
         /\ fwd' = "done"
         /\ global' = global + 1
         /\ mustpin' = {<<t, g[t].ep>> : t \in {u \in Threads : g[u].st = "live" /\ <<u, g[u].gen>> \in atstart}}
         /\ Adv /\ UNCHANGED <<ecap, g, atstart, quiet, conc, seen, mseen, glist>>
FObs == /\ IsEv("fobs") /\ fwd = "done"
        /\ CkMono => /\ Ev.cur = global                                   \* exactly one step per forward
                     /\ Ev.min <= Ev.cur
                     /\ (quiet /\ Ev.haslist = 1) => (Ev.list = <<Ev.cur, Ev.cur - 1>>)
                     /\ quiet => Ev.min = Ev.cur - 1
        /\ (CkPin /\ Ev.haslist = 1) => \A p \in mustpin : p[2] \in RangeOf(Ev.list)
        /\ CkPin => \A p \in mustpin : Ev.min <= p[2]
        /\ (CkSeq /\ ~conc) =>
              LET pins == {g[t].ep : t \in Live}
                  want == SortDesc({Ev.cur, Ev.cur - 1} \cup pins) IN
              /\ Ev.haslist = 1 => Ev.list = want
              /\ Ev.min = want[Len(want)]
              /\ Ev.pn <= Cardinality({e \div ecap : e \in ({Ev.cur, Ev.cur - 1} \cup pins)}) + 3   \* "plus a constant"
        /\ CkMono => Ev.cur >= mseen                                     \* an earlier minimum never exceeds a later current
        /\ seen' = IF Ev.cur > seen THEN Ev.cur ELSE seen
        /\ mseen' = IF Ev.min > mseen THEN Ev.min ELSE mseen
        /\ fwd' = "idle"
        /\ Adv /\ UNCHANGED <<ecap, global, g, atstart, mustpin, quiet, conc, glist>>

CurEv == /\ IsEv("cur")
         /\ CkMono => (Ev.v >= global /\ Ev.v <= MaxCur /\ Ev.v >= seen /\ Ev.v >= mseen)
         /\ seen' = IF Ev.v > seen THEN Ev.v ELSE seen
         /\ Adv /\ UNCHANGED <<ecap, global, fwd, g, atstart, mustpin, quiet, conc, mseen, glist>>
MinEv == /\ IsEv("min")
         /\ CkMono => (Ev.v <= MaxCur /\ Ev.v >= ecap)
         /\ mseen' = IF Ev.v > mseen THEN Ev.v ELSE mseen
         /\ Adv /\ UNCHANGED <<ecap, global, fwd, g, atstart, mustpin, quiet, conc, seen, glist>>

\* a live guard was moved into another object and back: same epoch, still live
GMove == /\ IsEv("gmove") /\ g[Ev.t].st = "live"
         /\ (CkPin \/ CkMono \/ CkList \/ CkSeq) => Ev.ep = g[Ev.t].ep
         /\ Touch
         /\ Adv /\ UNCHANGED <<ecap, global, fwd, g, atstart, mustpin, seen, mseen, glist>>

MgrDead == /\ IsEv("mgrdead")
           /\ CkSeq => Ev.pn = 0                                           \* destruction frees every list node
           /\ Adv /\ UNCHANGED <<ecap, global, fwd, g, atstart, mustpin, quiet, conc, seen, mseen, glist>>
Other == /\ (IsEv("skip") \/ IsEv("tend") \/ IsEv("texit"))
         /\ Adv /\ UNCHANGED <<ecap, global, fwd, g, atstart, mustpin, quiet, conc, seen, mseen, glist>>
\* the run stopped before every thread finished (deadlock, crash): never legal for these programs
Reset == /\ IsEv("reset")
         /\ global' = ecap /\ fwd' = "idle" /\ g' = [t \in Threads |-> NoGuard]
         /\ atstart' = {} /\ mustpin' = {} /\ quiet' = TRUE /\ conc' = FALSE /\ seen' = 0 /\ mseen' = 0
         /\ glist' = [t \in Threads |-> <<>>]
         /\ Adv /\ UNCHANGED ecap

Next == Cfg \/ GCall \/ GRet \/ GMove \/ ReList \/ Uaf \/ DCall \/ DRet \/ FCall \/ FDone \/ FObs \/ CurEv \/ MinEv
        \/ MgrDead \/ Other \/ Reset
Spec == Init /\ [][Next]_vars
Progress == IF l > TLCGet(1) THEN TLCSet(1, l) ELSE TRUE
Accepted == /\ PrintT(<<"MAXL", TLCGet(1), "LEN", Len(Tr)>>)
            /\ TLCGet(1) = Len(Tr) + 1
=============================================================================
