---- MODULE EpochAbsTrace_TTrace_1791140686 ----
EXTENDS Sequences, TLCExt, Toolbox, Naturals, TLC, EpochAbsTrace

_expression ==
    LET EpochAbsTrace_TEExpression == INSTANCE EpochAbsTrace_TEExpression
    IN EpochAbsTrace_TEExpression!expression
----

_trace ==
    LET EpochAbsTrace_TETrace == INSTANCE EpochAbsTrace_TETrace
    IN EpochAbsTrace_TETrace!trace
----

_inv ==
    ~(
        TLCGet("level") = Len(_TETrace)
        /\
        ecap = ()
        /\
        fwd = ()
        /\
        mustpin = ()
        /\
        atstart = ()
        /\
        g = ()
        /\
        global = ()
        /\
        quiet = ()
        /\
        glist = ()
        /\
        l = ()
        /\
        seen = ()
        /\
        conc = ()
    )
----

_init ==
    /\ conc = _TETrace[1].conc
    /\ g = _TETrace[1].g
    /\ l = _TETrace[1].l
    /\ mustpin = _TETrace[1].mustpin
    /\ quiet = _TETrace[1].quiet
    /\ atstart = _TETrace[1].atstart
    /\ ecap = _TETrace[1].ecap
    /\ glist = _TETrace[1].glist
    /\ fwd = _TETrace[1].fwd
    /\ global = _TETrace[1].global
    /\ seen = _TETrace[1].seen
----

_next ==
    /\ \E i,j \in DOMAIN _TETrace:
        /\ \/ /\ j = i + 1
              /\ i = TLCGet("level")
        /\ conc  = _TETrace[i].conc
        /\ conc' = _TETrace[j].conc
        /\ g  = _TETrace[i].g
        /\ g' = _TETrace[j].g
        /\ l  = _TETrace[i].l
        /\ l' = _TETrace[j].l
        /\ mustpin  = _TETrace[i].mustpin
        /\ mustpin' = _TETrace[j].mustpin
        /\ quiet  = _TETrace[i].quiet
        /\ quiet' = _TETrace[j].quiet
        /\ atstart  = _TETrace[i].atstart
        /\ atstart' = _TETrace[j].atstart
        /\ ecap  = _TETrace[i].ecap
        /\ ecap' = _TETrace[j].ecap
        /\ glist  = _TETrace[i].glist
        /\ glist' = _TETrace[j].glist
        /\ fwd  = _TETrace[i].fwd
        /\ fwd' = _TETrace[j].fwd
        /\ global  = _TETrace[i].global
        /\ global' = _TETrace[j].global
        /\ seen  = _TETrace[i].seen
        /\ seen' = _TETrace[j].seen

\* Uncomment the ASSUME below to write the states of the error trace
\* to the given file in Json format. Note that you can pass any tuple
\* to `JsonSerialize`. For example, a sub-sequence of _TETrace.
    \* ASSUME
    \*     LET J == INSTANCE Json
    \*         IN J!JsonSerialize("EpochAbsTrace_TTrace_1791140686.json", _TETrace)

=============================================================================

 Note that you can extract this module `EpochAbsTrace_TEExpression`
  to a dedicated file to reuse `expression` (the module in the 
  dedicated `EpochAbsTrace_TEExpression.tla` file takes precedence 
  over the module `EpochAbsTrace_TEExpression` below).

---- MODULE EpochAbsTrace_TEExpression ----
EXTENDS Sequences, TLCExt, Toolbox, Naturals, TLC, EpochAbsTrace

expression == 
    [
        \* To hide variables of the `EpochAbsTrace` spec from the error trace,
        \* remove the variables below.  The trace will be written in the order
        \* of the fields of this record.
        conc |-> conc
        ,g |-> g
        ,l |-> l
        ,mustpin |-> mustpin
        ,quiet |-> quiet
        ,atstart |-> atstart
        ,ecap |-> ecap
        ,glist |-> glist
        ,fwd |-> fwd
        ,global |-> global
        ,seen |-> seen
        
        \* Put additional constant-, state-, and action-level expressions here:
        \* ,_stateNumber |-> _TEPosition
        \* ,_concUnchanged |-> conc = conc'
        
        \* Format the `conc` variable as Json value.
        \* ,_concJson |->
        \*     LET J == INSTANCE Json
        \*     IN J!ToJson(conc)
        
        \* Lastly, you may build expressions over arbitrary sets of states by
        \* leveraging the _TETrace operator.  For example, this is how to
        \* count the number of times a spec variable changed up to the current
        \* state in the trace.
        \* ,_concModCount |->
        \*     LET F[s \in DOMAIN _TETrace] ==
        \*         IF s = 1 THEN 0
        \*         ELSE IF _TETrace[s].conc # _TETrace[s-1].conc
        \*             THEN 1 + F[s-1] ELSE F[s-1]
        \*     IN F[_TEPosition - 1]
    ]

=============================================================================



Parsing and semantic processing can take forever if the trace below is long.
 In this case, it is advised to uncomment the module below to deserialize the
 trace from a generated binary file.

\*
\*---- MODULE EpochAbsTrace_TETrace ----
\*EXTENDS IOUtils, TLC, EpochAbsTrace
\*
\*trace == IODeserialize("EpochAbsTrace_TTrace_1791140686.bin", TRUE)
\*
\*=============================================================================
\*

---- MODULE EpochAbsTrace_TETrace ----
EXTENDS TLC, EpochAbsTrace

trace == 
    <<
    ([ecap |-> 256,fwd |-> "idle",mustpin |-> {},atstart |-> {},g |-> <<[st |-> "none", ep |-> 0, lo |-> 0, gen |-> 0], [st |-> "none", ep |-> 0, lo |-> 0, gen |-> 0], [st |-> "none", ep |-> 0, lo |-> 0, gen |-> 0], [st |-> "none", ep |-> 0, lo |-> 0, gen |-> 0], [st |-> "none", ep |-> 0, lo |-> 0, gen |-> 0], [st |-> "none", ep |-> 0, lo |-> 0, gen |-> 0]>>,global |-> 256,quiet |-> TRUE,glist |-> <<<<>>, <<>>, <<>>, <<>>, <<>>, <<>>>>,l |-> 1,seen |-> 0,conc |-> FALSE]),
    ([ecap |-> ,fwd |-> ,mustpin |-> ,atstart |-> ,g |-> ,global |-> ,quiet |-> ,glist |-> ,l |-> ,seen |-> ,conc |-> ])
    >>
----


=============================================================================

---- CONFIG EpochAbsTrace_TTrace_1791140686 ----
CONSTANTS
    Threads = { 1 , 2 , 3 , 4 , 5 , 6 }
    CkPin = FALSE
    CkMono = FALSE
    CkList = TRUE
    CkSeq = FALSE

INVARIANT
    _inv

CHECK_DEADLOCK
    \* CHECK_DEADLOCK off because of PROPERTY or INVARIANT above.
    FALSE

INIT
    _init

NEXT
    _next

CONSTANT
    _TETrace <- _trace

ALIAS
    _expression
=============================================================================
\* Generated on Sun Oct 04 19:04:50 UTC 2026