------------------------------ MODULE EpochImpl ------------------------------
(***************************************************************************)
(* Level 2: EpochManager as implemented (src/thread/epoch_manager.cpp,     *)
(* component/epoch.cpp), composed with an abstract IDManager whose         *)
(* thread-exit order is the constant ExitOrder (see IdImpl).               *)
(*                                                                         *)
(* shared: idflag[i], slotHB[i] (which thread's heartbeat the slot's       *)
(* weak_ptr denotes), entered[i] (MAX = not entered), global, minE,        *)
(* nodes (alive 256-epoch list nodes, by range index; Cap = node capacity, *)
(* 2 when model checking), lists[e] (published protected-epoch sets of the *)
(* epochs whose node is alive).                                            *)
(* coordinator ForwardGlobalEpoch: f_load, [new node], one step per slot   *)
(* (heartbeat test + read entered), f_list (sort/unique/publish into the   *)
(* node), one step per retired node, f_pub (store global), f_min.          *)
(* worker CreateEpochGuard / GetProtectedEpochs: c_test (heartbeat of the  *)
(* slot expired?), c_bind, e_load (read global), e_store (publish          *)
(* entered), w_head (read head pointer), w_hop (one per hop), w_at (index  *)
(* the node) -> held; Leave.  Workers start, obtain an ID, exit (two steps *)
(* in ExitOrder) and later threads reuse the ID.                           *)
(***************************************************************************)
EXTENDS Naturals, Sequences, FiniteSets, TLC

CONSTANTS Workers, N, Cap, MaxFwd, MaxGuards, ExitOrder, Init0, WithWalk, NoStall

VARIABLES idflag, ws, wid, hbAlive,
          slotHB, entered, global, minE, nodes, lists,
          cpc, ccur, cidx, cacc, nfwd, pinnedAtStart, cret,
          gpc, ge, ng, cn, gl, stall
vars == <<idflag, ws, wid, hbAlive, slotHB, entered, global, minE, nodes, lists,
          cpc, ccur, cidx, cacc, nfwd, pinnedAtStart, cret, gpc, ge, ng, cn, gl, stall>>

MAX == 9999
Slots == 0..(N - 1)
RangeOf(e) == e \div Cap
HeadN == CHOOSE r \in nodes : \A x \in nodes : x <= r
NextBelow(r) == IF \E x \in nodes : x < r THEN CHOOSE y \in nodes : y < r /\ \A x \in nodes : x < r => x <= y ELSE 0

Init == /\ idflag = [i \in Slots |-> FALSE]
        /\ ws = [w \in Workers |-> "new"] /\ wid = [w \in Workers |-> 0] /\ hbAlive = [w \in Workers |-> FALSE]
        /\ slotHB = [i \in Slots |-> 0] /\ entered = [i \in Slots |-> MAX]
        /\ global = Init0 /\ minE = Init0 /\ nodes = {RangeOf(Init0)} /\ lists = (Init0 :> {Init0})
        /\ cpc = "idle" /\ ccur = 0 /\ cidx = 0 /\ cacc = {} /\ nfwd = 0 /\ pinnedAtStart = {} /\ cret = {}
        /\ gpc = [w \in Workers |-> "none"] /\ ge = [w \in Workers |-> 0] /\ ng = [w \in Workers |-> 0]
        /\ cn = [w \in Workers |-> 0] /\ gl = [w \in Workers |-> {}] /\ stall = [w \in Workers |-> 0]

KeepId == UNCHANGED <<idflag, ws, wid, hbAlive>>
KeepSh == UNCHANGED <<slotHB, entered, global, minE, nodes, lists>>
KeepC == UNCHANGED <<cpc, ccur, cidx, cacc, nfwd, pinnedAtStart, cret>>
KeepG == UNCHANGED <<gpc, ge, ng, cn, gl, stall>>

\* ---------- threads and IDs (claim is one step here; probing is IdImpl's business) ----------
Claim(w) == /\ ws[w] = "new"
            /\ \E i \in Slots : /\ ~idflag[i]
                                /\ idflag' = [idflag EXCEPT ![i] = TRUE] /\ wid' = [wid EXCEPT ![w] = i]
            /\ hbAlive' = [hbAlive EXCEPT ![w] = TRUE] /\ ws' = [ws EXCEPT ![w] = "running"]
            /\ KeepSh /\ KeepC /\ KeepG
ExitA(w) == /\ ws[w] = "running" /\ gpc[w] = "none"
            /\ ws' = [ws EXCEPT ![w] = "exit"]
            /\ IF ExitOrder = "hb_first" THEN hbAlive' = [hbAlive EXCEPT ![w] = FALSE] /\ UNCHANGED idflag
               ELSE idflag' = [idflag EXCEPT ![wid[w]] = FALSE] /\ UNCHANGED hbAlive
            /\ UNCHANGED wid /\ KeepSh /\ KeepC /\ KeepG
ExitB(w) == /\ ws[w] = "exit" /\ ws' = [ws EXCEPT ![w] = "dead"]
            /\ IF ExitOrder = "hb_first" THEN idflag' = [idflag EXCEPT ![wid[w]] = FALSE] /\ UNCHANGED hbAlive
               ELSE hbAlive' = [hbAlive EXCEPT ![w] = FALSE] /\ UNCHANGED idflag
            /\ UNCHANGED wid /\ KeepSh /\ KeepC /\ KeepG
Expired(i) == slotHB[i] = 0 \/ ~hbAlive[slotHB[i]]

\* ---------- worker: CreateEpochGuard (+ list walk of GetProtectedEpochs) ----------
CTest(w) == /\ ws[w] = "running" /\ gpc[w] = "none" /\ ng[w] < MaxGuards
            /\ gpc' = [gpc EXCEPT ![w] = IF Expired(wid[w]) THEN "c_bind" ELSE "e_load"]
            /\ ng' = [ng EXCEPT ![w] = ng[w] + 1]
            /\ stall' = [stall EXCEPT ![w] = IF cpc # "idle" THEN 1 ELSE 0]   \* forwards this guard creation overlaps
            /\ UNCHANGED <<ge, cn, gl>> /\ KeepId /\ KeepSh /\ KeepC
CBind(w) == /\ gpc[w] = "c_bind"
            /\ slotHB' = [slotHB EXCEPT ![wid[w]] = w]
            /\ gpc' = [gpc EXCEPT ![w] = "e_load"]
            /\ UNCHANGED <<entered, global, minE, nodes, lists, ge, ng, cn, gl, stall>> /\ KeepId /\ KeepC
ELoad(w) == /\ gpc[w] = "e_load"
            /\ ge' = [ge EXCEPT ![w] = global] /\ gpc' = [gpc EXCEPT ![w] = "e_store"]
            /\ UNCHANGED <<ng, cn, gl, stall>> /\ KeepId /\ KeepSh /\ KeepC
EStore(w) == /\ gpc[w] = "e_store"
             /\ entered' = [entered EXCEPT ![wid[w]] = ge[w]]
             /\ gpc' = [gpc EXCEPT ![w] = IF WithWalk THEN "w_head" ELSE "held"]
             /\ UNCHANGED <<slotHB, global, minE, nodes, lists, ge, ng, cn, gl, stall>> /\ KeepId /\ KeepC
WHead(w) == /\ gpc[w] = "w_head"
            /\ cn' = [cn EXCEPT ![w] = HeadN]
            /\ gpc' = [gpc EXCEPT ![w] = IF HeadN > RangeOf(ge[w]) THEN "w_hop" ELSE "w_at"]
            /\ UNCHANGED <<ge, ng, gl, stall>> /\ KeepId /\ KeepSh /\ KeepC
\* node = node->next : dereferences the current node
WHop(w) == /\ gpc[w] = "w_hop" /\ cn[w] \in nodes
           /\ LET nx == NextBelow(cn[w]) IN
              /\ cn' = [cn EXCEPT ![w] = nx]
              /\ gpc' = [gpc EXCEPT ![w] = IF nx > RangeOf(ge[w]) THEN "w_hop" ELSE "w_at"]
           /\ UNCHANGED <<ge, ng, gl, stall>> /\ KeepId /\ KeepSh /\ KeepC
\* epoch_lists_.at(e & mask) of the node reached
WAt(w) == /\ gpc[w] = "w_at" /\ cn[w] \in nodes
          /\ gl' = [gl EXCEPT ![w] = IF cn[w] = RangeOf(ge[w]) /\ ge[w] \in DOMAIN lists THEN lists[ge[w]] ELSE {MAX}]
          /\ gpc' = [gpc EXCEPT ![w] = "held"]
          /\ UNCHANGED <<ge, ng, cn, stall>> /\ KeepId /\ KeepSh /\ KeepC
Leave(w) == /\ gpc[w] = "held"
            /\ entered' = [entered EXCEPT ![wid[w]] = MAX] /\ gpc' = [gpc EXCEPT ![w] = "none"]
            /\ UNCHANGED <<slotHB, global, minE, nodes, lists, ge, ng, cn, gl, stall>> /\ KeepId /\ KeepC

\* ---------- coordinator: ForwardGlobalEpoch ----------
Inside(w) == gpc[w] \notin {"none", "held"}                        \* inside CreateEpochGuard / GetProtectedEpochs
FLoad == /\ cpc = "idle" /\ nfwd < MaxFwd
         /\ ccur' = global /\ cidx' = 0 /\ cacc' = {global, global + 1} /\ nfwd' = nfwd + 1
         /\ nodes' = nodes \cup {RangeOf(global + 1)}                  \* new node at a boundary
         /\ pinnedAtStart' = {<<w, ng[w]>> : w \in {v \in Workers : gpc[v] = "held"}}
         /\ stall' = [w \in Workers |-> IF Inside(w) THEN stall[w] + 1 ELSE stall[w]]
         /\ cpc' = "scan" /\ UNCHANGED <<cret, slotHB, entered, global, minE, lists, gpc, ge, ng, cn, gl>> /\ KeepId
FScan == /\ cpc = "scan" /\ cidx < N
         /\ cacc' = IF ~Expired(cidx) /\ entered[cidx] # MAX THEN cacc \cup {entered[cidx]} ELSE cacc
         /\ cidx' = cidx + 1
         /\ UNCHANGED <<cpc, ccur, nfwd, pinnedAtStart, cret>> /\ KeepId /\ KeepSh /\ KeepG
FList == /\ cpc = "scan" /\ cidx = N
         /\ lists' = [e \in (DOMAIN lists \cup {ccur + 1}) |-> IF e = ccur + 1 THEN cacc ELSE lists[e]]
         \* RemoveOutDatedLists: every node without a protected epoch, except the head and the oldest one
         /\ cret' = {r \in nodes : r # HeadN /\ (\E x \in nodes : x < r) /\ ~\E e \in cacc : RangeOf(e) = r}
         /\ cpc' = "retire"
         /\ UNCHANGED <<ccur, cidx, cacc, nfwd, pinnedAtStart, slotHB, entered, global, minE, nodes>> /\ KeepId /\ KeepG
FRetire == /\ cpc = "retire" /\ cret # {}
           /\ LET r == CHOOSE x \in cret : \A y \in cret : y <= x IN
              /\ nodes' = nodes \ {r} /\ cret' = cret \ {r}
              /\ lists' = [e \in {x \in DOMAIN lists : RangeOf(x) # r} |-> lists[e]]
           /\ UNCHANGED <<cpc, ccur, cidx, cacc, nfwd, pinnedAtStart, slotHB, entered, global, minE>> /\ KeepId /\ KeepG
FPub == /\ cpc = "retire" /\ cret = {}
        /\ global' = ccur + 1 /\ cpc' = "min"
        /\ UNCHANGED <<ccur, cidx, cacc, nfwd, pinnedAtStart, cret, slotHB, entered, minE, nodes, lists>> /\ KeepId /\ KeepG
FMin == /\ cpc = "min"
        /\ minE' = CHOOSE m \in cacc : \A x \in cacc : m <= x
        /\ cpc' = "idle"
        /\ UNCHANGED <<ccur, cidx, cacc, nfwd, pinnedAtStart, cret, slotHB, entered, global, nodes, lists>> /\ KeepId /\ KeepG

WStep(w) == Claim(w) \/ ExitA(w) \/ ExitB(w) \/ CTest(w) \/ CBind(w) \/ ELoad(w) \/ EStore(w) \/ WHead(w) \/ WHop(w) \/ WAt(w) \/ Leave(w)
CStep == FLoad \/ FScan \/ FList \/ FRetire \/ FPub \/ FMin
Next == CStep \/ \E w \in Workers : WStep(w)
Spec == Init /\ [][Next]_vars
\* the conditional form of C17 (known finding D6 excluded): no guard creation overlaps two or more forwards
StallBound == NoStall => \A w \in Workers : stall[w] < 2

-----------------------------------------------------------------------------
\* C04: guards complete before the forward started and still alive at its return are in the new list; min <= epoch
C04 == (cpc = "idle" /\ nfwd > 0) =>
          \A p \in pinnedAtStart : (gpc[p[1]] = "held" /\ ng[p[1]] = p[2]) =>
               (entered[wid[p[1]]] \in lists[global] /\ minE <= entered[wid[p[1]]])
\* C16
MinLeCur == minE <= global
OneStep == [][global' = global \/ global' = global + 1]_vars
Quiescent == (cpc = "idle" /\ nfwd > 0 /\ pinnedAtStart = {} /\ \A w \in Workers : gpc[w] = "none" /\ stall[w] = 0)
                => TRUE
\* C17: every node a guard holder dereferences is alive, and the list it gets is the one of its epoch
NodeSafe == \A w \in Workers : gpc[w] \in {"w_hop", "w_at"} => cn[w] \in nodes
OwnList == \A w \in Workers : (gpc[w] = "held" /\ WithWalk) =>
              /\ ge[w] \in gl[w] /\ \A x \in gl[w] : x <= ge[w]
              /\ (ge[w] > Init0 => (ge[w] - 1) \in gl[w])
              /\ RangeOf(ge[w]) \in nodes /\ ge[w] \in DOMAIN lists /\ lists[ge[w]] = gl[w]
\* C15 seen from here: a slot's heartbeat, while unexpired, belongs to the thread that owns the slot's ID
SlotOwner == \A i \in Slots : ~Expired(i) => (wid[slotHB[i]] = i /\ ws[slotHB[i]] \in {"running", "exit"})
=============================================================================
