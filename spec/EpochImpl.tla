------------------------------ MODULE EpochImpl ------------------------------
(***************************************************************************)
(* Level 2: EpochManager as implemented (src/thread/epoch_manager.cpp,     *)
(* include/dbgroup/thread/epoch_manager.hpp, component/epoch.cpp,          *)
(* epoch_guard.cpp), composed with an abstract IDManager whose thread-exit *)
(* order is the constant ExitOrder (see IdImpl).  One action per quantum   *)
(* of the code between two scheduling points (atomic operations and the    *)
(* guarded hook points), so that EpochImplTrace can follow real runs step  *)
(* for step.                                                               *)
(*                                                                         *)
(* shared state                                                            *)
(*   idflag[i]            reservation flag of ID i                         *)
(*   slotHB[i]            the thread whose heartbeat tls_fields_[i] holds  *)
(*                        (0 = never bound); hbAlive[w] = not yet expired  *)
(*   entered[i]           Epoch::entered_ of slot i (MAX = not entered)    *)
(*   global, minE         global_epoch_, min_epoch_                        *)
(*   head, nxt, alive     the linked list of ProtectedNodes: a node is     *)
(*                        named by its range index (epoch div Cap), 0 is   *)
(*                        the null pointer; nxt keeps the pointer of a     *)
(*                        node even after it was unlinked or deleted       *)
(*   lists[e]             the published vector of epoch e (of alive nodes) *)
(* coordinator  ForwardGlobalEpoch:                                        *)
(*   FLoad   load global (+ new node at a range boundary, head updated)    *)
(*   FTest   tls.heartbeat.expired() of slot cidx                          *)
(*   FRead   tls.epoch.GetProtectedEpoch() of that slot                    *)
(*   FList   sort/unique = publish the vector; RemoveOutDatedLists decides *)
(*           (exactly as the loop does) which nodes go and unlinks the     *)
(*           first one                                                     *)
(*   FDelete delete the unlinked node, unlink the next one                 *)
(*   FPub    global_epoch_.store(next, release)                            *)
(*   FMin    min_epoch_.store(back())                                      *)
(* worker  CreateEpochGuard / GetProtectedEpochs:                          *)
(*   CTest   heartbeat.expired() of the own slot; CBind re-initialises it  *)
(*   ELoad   read the global epoch;  EStore publish it in entered_         *)
(*   WHead   read the head pointer;  WDeref dereference the current node:  *)
(*           hop to its successor or index it (held)                       *)
(*   Leave   LeaveEpoch                                                    *)
(* Threads start, claim an ID, exit in two steps (ExitOrder) and later     *)
(* threads reuse the ID.                                                   *)
(***************************************************************************)
EXTENDS Naturals, Sequences, FiniteSets, TLC

CONSTANTS Workers, N, Cap, MaxFwd, MaxGuards, ExitOrder, Init0, WithWalk, NoStall

VARIABLES idflag, ws, wid, hbAlive,
          slotHB, entered, global, minE, head, nxt, alive, lists,
          cpc, ccur, cidx, cacc, cretq, nfwd, pinnedAtStart, quietF, seqF,
          gpc, ge, ng, cn, gl, stall
idv == <<idflag, ws, wid, hbAlive>>
shv == <<slotHB, entered, global, minE, head, nxt, alive, lists>>
cov == <<cpc, ccur, cidx, cacc, cretq, nfwd, pinnedAtStart, quietF, seqF>>
wov == <<gpc, ge, ng, cn, gl, stall>>
vars == <<idv, shv, cov, wov>>

MAX == 999999
Slots == 0..(N - 1)
RangeOf(e) == e \div Cap
R0 == RangeOf(Init0)

Init == /\ idflag = [i \in Slots |-> FALSE]
        /\ ws = [w \in Workers |-> "new"] /\ wid = [w \in Workers |-> 0] /\ hbAlive = [w \in Workers |-> FALSE]
        /\ slotHB = [i \in Slots |-> 0] /\ entered = [i \in Slots |-> MAX]
        /\ global = Init0 /\ minE = Init0
        /\ head = R0 /\ nxt = (R0 :> 0) /\ alive = {R0} /\ lists = (Init0 :> {Init0})
        /\ cpc = "idle" /\ ccur = 0 /\ cidx = 0 /\ cacc = {} /\ cretq = <<>> /\ nfwd = 0
        /\ pinnedAtStart = {} /\ quietF = FALSE /\ seqF = FALSE
        /\ gpc = [w \in Workers |-> "none"] /\ ge = [w \in Workers |-> 0] /\ ng = [w \in Workers |-> 0]
        /\ cn = [w \in Workers |-> 0] /\ gl = [w \in Workers |-> {}] /\ stall = [w \in Workers |-> 0]

\* any guard step of a worker: the forward in progress is neither quiescent nor sequential (and once it has
\* returned, Quiescent / SeqExact speak about the state it left behind, not about later ones)
Touch == /\ quietF' = FALSE /\ seqF' = FALSE
         /\ UNCHANGED <<cpc, ccur, cidx, cacc, cretq, nfwd, pinnedAtStart>>

\* ---------- threads and IDs (the claim is one step here; probing is IdImpl's business) ----------
Claim(w) == /\ ws[w] = "new"
            /\ \E i \in Slots : /\ ~idflag[i]
                                /\ idflag' = [idflag EXCEPT ![i] = TRUE] /\ wid' = [wid EXCEPT ![w] = i]
            /\ hbAlive' = [hbAlive EXCEPT ![w] = TRUE] /\ ws' = [ws EXCEPT ![w] = "running"]
            /\ UNCHANGED <<shv, cov, wov>>
ExitA(w) == /\ ws[w] = "running" /\ gpc[w] = "none"
            /\ ws' = [ws EXCEPT ![w] = "exit"]
            /\ IF ExitOrder = "hb_first" THEN hbAlive' = [hbAlive EXCEPT ![w] = FALSE] /\ UNCHANGED idflag
               ELSE idflag' = [idflag EXCEPT ![wid[w]] = FALSE] /\ UNCHANGED hbAlive
            /\ UNCHANGED <<wid, shv, cov, wov>>
ExitB(w) == /\ ws[w] = "exit" /\ ws' = [ws EXCEPT ![w] = "dead"]
            /\ IF ExitOrder = "hb_first" THEN idflag' = [idflag EXCEPT ![wid[w]] = FALSE] /\ UNCHANGED hbAlive
               ELSE hbAlive' = [hbAlive EXCEPT ![w] = FALSE] /\ UNCHANGED idflag
            /\ UNCHANGED <<wid, shv, cov, wov>>
Expired(i) == slotHB[i] = 0 \/ ~hbAlive[slotHB[i]]

\* ---------- worker: CreateEpochGuard (+ the list walk of GetProtectedEpochs) ----------
CTest(w) == /\ ws[w] = "running" /\ gpc[w] = "none" /\ ng[w] < MaxGuards
            /\ gpc' = [gpc EXCEPT ![w] = IF Expired(wid[w]) THEN "c_bind" ELSE "e_load"]
            /\ ng' = [ng EXCEPT ![w] = ng[w] + 1]
            /\ stall' = [stall EXCEPT ![w] = IF cpc # "idle" THEN 1 ELSE 0]   \* forwards this guard creation overlaps
            /\ UNCHANGED <<ge, cn, gl>> /\ UNCHANGED <<idv, shv>> /\ Touch
CBind(w) == /\ gpc[w] = "c_bind"
            /\ slotHB' = [slotHB EXCEPT ![wid[w]] = w]
            /\ gpc' = [gpc EXCEPT ![w] = "e_load"]
            /\ UNCHANGED <<entered, global, minE, head, nxt, alive, lists, ge, ng, cn, gl, stall>> /\ UNCHANGED idv /\ Touch
ELoad(w) == /\ gpc[w] = "e_load"
            /\ ge' = [ge EXCEPT ![w] = global] /\ gpc' = [gpc EXCEPT ![w] = "e_store"]
            /\ UNCHANGED <<ng, cn, gl, stall>> /\ UNCHANGED <<idv, shv>> /\ Touch
\* CreateEpochGuard returns here ("held"); GetProtectedEpochs goes on to walk the list
EStore(w) == /\ gpc[w] = "e_store"
             /\ entered' = [entered EXCEPT ![wid[w]] = ge[w]]
             /\ \E walk \in (IF WithWalk THEN {TRUE, FALSE} ELSE {FALSE}) :
                   gpc' = [gpc EXCEPT ![w] = IF walk THEN "w_head" ELSE "held"]
             /\ gl' = [gl EXCEPT ![w] = {}]
             /\ UNCHANGED <<slotHB, global, minE, head, nxt, alive, lists, ge, ng, cn, stall>> /\ UNCHANGED idv /\ Touch
WHead(w) == /\ gpc[w] = "w_head"
            /\ cn' = [cn EXCEPT ![w] = head] /\ gpc' = [gpc EXCEPT ![w] = "w_deref"]
            /\ UNCHANGED <<ge, ng, gl, stall>> /\ UNCHANGED <<idv, shv>> /\ Touch
\* node->upper_epoch_ > upper_epoch ? node = node->next : return node->epoch_lists_.at(e & mask)
\* (a deleted node still "answers": its memory is read after free - NodeSafe flags the state before)
WDeref(w) == /\ gpc[w] = "w_deref" /\ cn[w] # 0
             /\ IF cn[w] > RangeOf(ge[w])
                THEN /\ cn' = [cn EXCEPT ![w] = nxt[cn[w]]] /\ UNCHANGED <<gpc, gl>>
                ELSE /\ LET e == cn[w] * Cap + (ge[w] % Cap) IN
                        gl' = [gl EXCEPT ![w] = IF e \in DOMAIN lists THEN lists[e] ELSE {MAX}]
                     /\ gpc' = [gpc EXCEPT ![w] = "held"] /\ UNCHANGED cn
             /\ UNCHANGED <<ge, ng, stall>> /\ UNCHANGED <<idv, shv>> /\ Touch
Leave(w) == /\ gpc[w] = "held"
            /\ entered' = [entered EXCEPT ![wid[w]] = MAX] /\ gpc' = [gpc EXCEPT ![w] = "none"]
            /\ UNCHANGED <<slotHB, global, minE, head, nxt, alive, lists, ge, ng, cn, gl, stall>> /\ UNCHANGED idv /\ Touch

\* ---------- coordinator: ForwardGlobalEpoch ----------
Inside(w) == gpc[w] \notin {"none", "held"}                        \* inside CreateEpochGuard / GetProtectedEpochs
NewR == RangeOf(global + 1)
FLoad == /\ cpc = "idle" /\ nfwd < MaxFwd
         /\ ccur' = global /\ cidx' = 0 /\ cacc' = {global, global + 1} /\ nfwd' = nfwd + 1 /\ cretq' = <<>>
         /\ IF (global + 1) % Cap = 0                                   \* new node at a range boundary
            THEN /\ alive' = alive \cup {NewR} /\ nxt' = (NewR :> head) @@ nxt /\ head' = NewR
            ELSE UNCHANGED <<alive, nxt, head>>
         /\ pinnedAtStart' = {<<w, ng[w]>> : w \in {v \in Workers : gpc[v] = "held"}}
         /\ quietF' = (\A w \in Workers : gpc[w] = "none") /\ seqF' = (\A w \in Workers : ~Inside(w))
         /\ stall' = [w \in Workers |-> IF Inside(w) THEN stall[w] + 1 ELSE stall[w]]
         /\ cpc' = "test" /\ UNCHANGED <<slotHB, entered, global, minE, lists, gpc, ge, ng, cn, gl>> /\ UNCHANGED idv
FTest == /\ cpc = "test" /\ cidx < N
         /\ IF Expired(cidx) THEN cidx' = cidx + 1 /\ UNCHANGED cpc ELSE cpc' = "read" /\ UNCHANGED cidx
         /\ UNCHANGED <<ccur, cacc, cretq, nfwd, pinnedAtStart, quietF, seqF>> /\ UNCHANGED <<idv, shv, wov>>
FRead == /\ cpc = "read"
         /\ cacc' = IF entered[cidx] # MAX THEN cacc \cup {entered[cidx]} ELSE cacc
         /\ cidx' = cidx + 1 /\ cpc' = "test"
         /\ UNCHANGED <<ccur, cretq, nfwd, pinnedAtStart, quietF, seqF>> /\ UNCHANGED <<idv, shv, wov>>

\* --- RemoveOutDatedLists, as the loop runs: `chain` = nodes from the head, k = index of `current`, pr = distinct
\* ranges of the protected epochs in descending order, j = index of the range the iterator stands on (beyond = kMinEpoch)
RECURSIVE ChainFrom(_, _)
ChainFrom(r, f) == IF r = 0 THEN <<>> ELSE <<r>> \o ChainFrom(f[r], f)
RECURSIVE DescSeq(_)
DescSeq(S) == IF S = {} THEN <<>> ELSE LET m == CHOOSE x \in S : \A y \in S : y <= x IN <<m>> \o DescSeq(S \ {m})
Without(s, k) == [i \in 1..(Len(s) - 1) |-> IF i < k THEN s[i] ELSE s[i + 1]]
RECURSIVE Retire(_, _, _, _)
Retire(chain, k, pr, j) ==
    IF k >= Len(chain) THEN <<>>                                          \* current->next == nullptr
    ELSE IF (IF j <= Len(pr) THEN pr[j] ELSE 0) = chain[k] THEN Retire(chain, k + 1, pr, j + 1)
    ELSE IF k > 1 THEN <<chain[k]>> \o Retire(Without(chain, k), k, pr, j)
    ELSE <<>>                                                             \* prev == current: the real loop would spin
Pred(r) == CHOOSE p \in DOMAIN nxt : p \in alive /\ nxt[p] = r /\ \E i \in 1..Len(ChainFrom(head, nxt)) : ChainFrom(head, nxt)[i] = p
Unlink(r) == nxt' = [nxt EXCEPT ![Pred(r)] = nxt[r]]

FList == /\ cpc = "test" /\ cidx = N
         /\ lists' = [e \in (DOMAIN lists \cup {ccur + 1}) |-> IF e = ccur + 1 THEN cacc ELSE lists[e]]
         /\ LET q == Retire(ChainFrom(head, nxt), 1, DescSeq({RangeOf(e) : e \in cacc}), 1) IN
            /\ cretq' = q
            /\ IF q # <<>> THEN Unlink(q[1]) ELSE UNCHANGED nxt
         /\ cpc' = "retire"
         /\ UNCHANGED <<ccur, cidx, cacc, nfwd, pinnedAtStart, quietF, seqF, slotHB, entered, global, minE, head, alive>>
         /\ UNCHANGED <<idv, wov>>
FDelete == /\ cpc = "retire" /\ cretq # <<>>
           /\ LET r == cretq[1] IN
              /\ alive' = alive \ {r}
              /\ lists' = [e \in {x \in DOMAIN lists : RangeOf(x) # r} |-> lists[e]]
              /\ cretq' = Tail(cretq)
              /\ IF Len(cretq) > 1 THEN Unlink(cretq[2]) ELSE UNCHANGED nxt
           /\ UNCHANGED <<cpc, ccur, cidx, cacc, nfwd, pinnedAtStart, quietF, seqF, slotHB, entered, global, minE, head>>
           /\ UNCHANGED <<idv, wov>>
FPub == /\ cpc = "retire" /\ cretq = <<>>
        /\ global' = ccur + 1 /\ cpc' = "min"
        /\ UNCHANGED <<ccur, cidx, cacc, cretq, nfwd, pinnedAtStart, quietF, seqF, slotHB, entered, minE, head, nxt, alive, lists>>
        /\ UNCHANGED <<idv, wov>>
FMin == /\ cpc = "min"
        /\ minE' = CHOOSE m \in cacc : \A x \in cacc : m <= x
        /\ cpc' = "idle"
        /\ UNCHANGED <<ccur, cidx, cacc, cretq, nfwd, pinnedAtStart, quietF, seqF, slotHB, entered, global, head, nxt, alive, lists>>
        /\ UNCHANGED <<idv, wov>>

WStep(w) == Claim(w) \/ ExitA(w) \/ ExitB(w) \/ CTest(w) \/ CBind(w) \/ ELoad(w) \/ EStore(w) \/ WHead(w) \/ WDeref(w) \/ Leave(w)
CStep == FLoad \/ FTest \/ FRead \/ FList \/ FDelete \/ FPub \/ FMin
Next == CStep \/ \E w \in Workers : WStep(w)
Spec == Init /\ [][Next]_vars
\* the conditional form of C17 (known finding D6 excluded): no guard creation overlaps two or more forwards
StallBound == NoStall => \A w \in Workers : stall[w] < 2

-----------------------------------------------------------------------------
\* C04: guards complete before the forward started and still alive at its return are in the new list; min <= epoch
C04 == (cpc = "idle" /\ nfwd > 0) =>
          \A p \in pinnedAtStart : (gpc[p[1]] = "held" /\ ng[p[1]] = p[2]) =>
               (entered[wid[p[1]]] \in lists[global] /\ minE <= entered[wid[p[1]]])
\* C16
MinLeCur == minE <= global
OneStep == [][global' = global \/ global' = global + 1]_vars
\* a forward that started after all guards were gone and met none publishes exactly {cur, cur-1}, min = cur-1
Quiescent == (cpc = "idle" /\ nfwd > 0 /\ quietF) => (lists[global] = {global, global - 1} /\ minE = global - 1)
\* C20: a forward that nothing ran concurrently with publishes exactly {new, previous} \cup pinned; min is the smallest;
\* the chain holds only nodes of ranges with a pinned or current epoch, plus the initial node
Pinned == {entered[wid[w]] : w \in {v \in Workers : gpc[v] = "held"}}
SeqExact == (cpc = "idle" /\ nfwd > 0 /\ seqF) =>
               /\ lists[global] = {global, global - 1} \cup Pinned
               /\ minE = CHOOSE m \in lists[global] : \A x \in lists[global] : m <= x
               /\ alive \subseteq ({RangeOf(e) : e \in lists[global]} \cup {R0})
\* the chain from the head is exactly the alive nodes, strictly descending, ending in the initial node
ChainOK == cpc \in {"idle", "test", "read"} =>
              LET c == ChainFrom(head, nxt) IN
              /\ {c[i] : i \in 1..Len(c)} = alive /\ c[Len(c)] = R0
              /\ \A i \in 1..(Len(c) - 1) : c[i] > c[i + 1]
\* C17: every node a guard holder dereferences is alive, and the list it gets is the one of its epoch
NodeSafe == \A w \in Workers : gpc[w] = "w_deref" => cn[w] \in alive
OwnList == \A w \in Workers : (gpc[w] = "held" /\ gl[w] # {}) =>
              /\ ge[w] \in gl[w] /\ \A x \in gl[w] : x <= ge[w]
              /\ (ge[w] > Init0 => (ge[w] - 1) \in gl[w])
              /\ RangeOf(ge[w]) \in alive /\ ge[w] \in DOMAIN lists /\ lists[ge[w]] = gl[w]
\* C15 seen from here: a slot's heartbeat, while unexpired, belongs to the thread that owns the slot's ID
SlotOwner == \A i \in Slots : ~Expired(i) => (wid[slotHB[i]] = i /\ ws[slotHB[i]] \in {"running", "exit"})
=============================================================================
