---------------------------- MODULE EpochImplTrace ----------------------------
(***************************************************************************)
(* Binding B1 for EpochManager: the steps recorded from real threads - the *)
(* atomic operations on global_epoch_ / min_epoch_ / entered_, the guarded *)
(* hook points (slot scan, re-binding, list-walk hops, node retirement),   *)
(* node allocations and the two thread-exit steps - must be the actions of *)
(* EpochImpl, in the same order, on the same slot / node, with the same    *)
(* value read or written.  What a guard holder is finally handed (gret,    *)
(* fobs: epoch and list) must be what the specification computed.          *)
(* Every quantum of the real code between two scheduling points carries a  *)
(* log entry (the hooks log once before and once after their yield), so    *)
(* no silent steps are needed: one event = one action.                     *)
(***************************************************************************)
EXTENDS EpochImpl, Json, IOUtils

VARIABLE l
Tr == ndJsonDeserialize(IOEnv.TRACE)
tvars == <<vars, l>>
Ev == Tr[l]
IsEv(k) == l <= Len(Tr) /\ Tr[l].e = k
Adv == l' = l + 1
ToSet(s) == {s[i] : i \in 1..Len(s)}

TInit == Init /\ l = 1 /\ TLCSet(1, 1)

TClaim == /\ IsEv("claim") /\ Claim(Ev.t) /\ (Ev.i >= 0 => wid'[Ev.t] = Ev.i) /\ Adv
TCTest == /\ IsEv("ctest") /\ CTest(Ev.t) /\ ((Ev.x = 1) <=> Expired(wid[Ev.t])) /\ Adv
TCBind == /\ IsEv("cbind") /\ CBind(Ev.t) /\ Adv
TELoad == /\ IsEv("eload") /\ ELoad(Ev.t) /\ global = Ev.v /\ Adv
\* whether the call goes on to walk the list (GetProtectedEpochs) or returns (CreateEpochGuard) is decided by what follows
TEStore == /\ IsEv("estore") /\ EStore(Ev.t) /\ wid[Ev.t] = Ev.i /\ ge[Ev.t] = Ev.v /\ Adv
TWHead == /\ IsEv("whead") /\ WHead(Ev.t) /\ head = Ev.n /\ Adv
TWDeref == /\ IsEv("wderef") /\ WDeref(Ev.t) /\ cn[Ev.t] \in alive
           /\ IF Ev.x = 1 THEN gpc'[Ev.t] = "held" ELSE (gpc'[Ev.t] = "w_deref" /\ cn'[Ev.t] = Ev.n)
           /\ Adv
TGRet == /\ IsEv("gret") /\ gpc[Ev.t] = "held" /\ ge[Ev.t] = Ev.v
         /\ IF Ev.x = 1 THEN gl[Ev.t] = ToSet(Ev.list) ELSE gl[Ev.t] = {}
         /\ Adv /\ UNCHANGED vars
\* the coordinator's own look at current / minimum / list after a forward
TFObs == /\ IsEv("fobs") /\ global = Ev.v /\ minE = Ev.m
         /\ Ev.x = 1 => (gpc[Ev.t] = "held" /\ ge[Ev.t] = Ev.v /\ gl[Ev.t] = ToSet(Ev.list))
         /\ Adv /\ UNCHANGED vars
TLeave == /\ IsEv("leave") /\ Leave(Ev.t) /\ wid[Ev.t] = Ev.i /\ Adv

TFLoad == /\ IsEv("fload") /\ FLoad /\ global = Ev.v /\ ((Ev.nn = 1) <=> ((global + 1) % Cap = 0)) /\ Adv
TFTest == /\ IsEv("ftest") /\ FTest /\ cidx = Ev.i /\ ((Ev.x = 1) <=> Expired(cidx)) /\ Adv
TFRead == /\ IsEv("fread") /\ FRead /\ cidx = Ev.i /\ entered[cidx] = Ev.v /\ Adv
TFList == /\ IsEv("flist") /\ FList /\ (IF cretq' # <<>> THEN cretq'[1] = Ev.n ELSE Ev.n = 0) /\ Adv
TFDelete == /\ IsEv("fdelete") /\ FDelete /\ cretq[1] = Ev.n
            /\ (IF Len(cretq) > 1 THEN cretq[2] = Ev.nn ELSE Ev.nn = 0) /\ Adv
TFPub == /\ IsEv("fpub") /\ FPub /\ global' = Ev.v /\ Adv
TFMin == /\ IsEv("fmin") /\ FMin /\ minE' = Ev.v /\ Adv
TRCur == /\ IsEv("rcur") /\ global = Ev.v /\ Adv /\ UNCHANGED vars
TRMin == /\ IsEv("rmin") /\ minE = Ev.v /\ Adv /\ UNCHANGED vars

\* the two steps of the thread-exit path, in the order the running code takes them
TExHb == /\ IsEv("exhb") /\ (IF ExitOrder = "hb_first" THEN ExitA(Ev.t) ELSE ExitB(Ev.t)) /\ Adv
TExFlag == /\ IsEv("exflag") /\ (Ev.i < 0 \/ wid[Ev.t] = Ev.i)
           /\ (IF ExitOrder = "hb_first" THEN ExitB(Ev.t) ELSE ExitA(Ev.t)) /\ Adv

TReset == /\ IsEv("reset")
          /\ idflag' = [i \in Slots |-> FALSE]
          /\ ws' = [w \in Workers |-> "new"] /\ wid' = [w \in Workers |-> 0] /\ hbAlive' = [w \in Workers |-> FALSE]
          /\ slotHB' = [i \in Slots |-> 0] /\ entered' = [i \in Slots |-> MAX]
          /\ global' = Init0 /\ minE' = Init0
          /\ head' = R0 /\ nxt' = (R0 :> 0) /\ alive' = {R0} /\ lists' = (Init0 :> {Init0})
          /\ cpc' = "idle" /\ ccur' = 0 /\ cidx' = 0 /\ cacc' = {} /\ cretq' = <<>> /\ nfwd' = 0
          /\ pinnedAtStart' = {} /\ quietF' = FALSE /\ seqF' = FALSE
          /\ gpc' = [w \in Workers |-> "none"] /\ ge' = [w \in Workers |-> 0] /\ ng' = [w \in Workers |-> 0]
          /\ cn' = [w \in Workers |-> 0] /\ gl' = [w \in Workers |-> {}] /\ stall' = [w \in Workers |-> 0]
          /\ Adv

TNext == TClaim \/ TCTest \/ TCBind \/ TELoad \/ TEStore \/ TWHead \/ TWDeref \/ TGRet \/ TFObs \/ TLeave
         \/ TFLoad \/ TFTest \/ TFRead \/ TFList \/ TFDelete \/ TFPub \/ TFMin \/ TRCur \/ TRMin
         \/ TExHb \/ TExFlag \/ TReset
TSpec == TInit /\ [][TNext]_tvars
Progress == IF l > TLCGet(1) THEN TLCSet(1, l) ELSE TRUE
Accepted == /\ PrintT(<<"MAXL", TLCGet(1), "LEN", Len(Tr)>>)
            /\ TLCGet(1) = Len(Tr) + 1
=============================================================================
