------------------------------ MODULE HBTrace ------------------------------
(***************************************************************************)
(* Happens-before monitor (C08) over the operation stream of real          *)
(* executions.  The stream is sequentially consistent (baton scheduler);   *)
(* synchronises-with edges are derived from the std::memory_order each     *)
(* atomic operation was given IN THE SOURCE (logged by the shim), by the   *)
(* C++20 rules:                                                            *)
(*   store          : rel[loc] := IF release THEN C[t] ELSE frel[t]        *)
(*                    (a plain store ends earlier release sequences)      *)
(*   RMW            : acquire part first, then rel[loc] \cup= ... (an RMW   *)
(*                    continues the release sequences it reads from)      *)
(*   acquire load   : C[t] \cup= rel[loc];  relaxed load: facq[t] \cup= .. *)
(*   release fence  : frel[t] := C[t];  acquire fence: C[t] \cup= facq[t]  *)
(*   failed CAS     : a load with the failure order                        *)
(* C[t] is the set of critical-section tokens known to happen-before the   *)
(* current point of thread t.  A section's token enters C[t] when the      *)
(* section ends (everything inside is sequenced before the releasing       *)
(* call).  When a section BEGINS, every ended section of another thread on *)
(* the same lock with a conflicting mode must be in C[t].                  *)
(* The monitor knows nothing about the lock algorithms.                    *)
(***************************************************************************)
EXTENDS Naturals, Sequences, FiniteSets, TLC, Json, IOUtils

CONSTANTS Threads, Locs

Tr == ndJsonDeserialize(IOEnv.TRACE)

VARIABLES l, C, rel, frel, facq, ended, active
vars == <<l, C, rel, frel, facq, ended, active>>

Conflict(a, b) == (a = "X") \/ (b = "X") \/ (a = "SIX" /\ b = "SIX")

Empty == /\ C = [t \in Threads |-> {}]
         /\ rel = [x \in Locs |-> {}]
         /\ frel = [t \in Threads |-> {}]
         /\ facq = [t \in Threads |-> {}]
         /\ ended = {}
         /\ active = {}

Init == Empty /\ l = 1 /\ TLCSet(1, 1)

Ev == Tr[l]
IsEv(k) == l <= Len(Tr) /\ Tr[l].e = k
Adv == l' = l + 1

\* ---- atomic operations ----
Load == /\ IsEv("ld")
        /\ IF Ev.acq = 1 THEN C' = [C EXCEPT ![Ev.t] = @ \cup rel[Ev.loc]] /\ UNCHANGED facq
           ELSE facq' = [facq EXCEPT ![Ev.t] = @ \cup rel[Ev.loc]] /\ UNCHANGED C
        /\ Adv /\ UNCHANGED <<rel, frel, ended, active>>
Store == /\ IsEv("st")
         /\ rel' = [rel EXCEPT ![Ev.loc] = IF Ev.rel = 1 THEN C[Ev.t] ELSE frel[Ev.t]]
         /\ Adv /\ UNCHANGED <<C, frel, facq, ended, active>>
Rmw == /\ IsEv("rmw")
       /\ LET c1 == IF Ev.acq = 1 THEN C[Ev.t] \cup rel[Ev.loc] ELSE C[Ev.t] IN
          /\ C' = [C EXCEPT ![Ev.t] = c1]
          /\ facq' = IF Ev.acq = 1 THEN facq ELSE [facq EXCEPT ![Ev.t] = @ \cup rel[Ev.loc]]
          /\ rel' = [rel EXCEPT ![Ev.loc] = @ \cup (IF Ev.rel = 1 THEN c1 ELSE frel[Ev.t])]
       /\ Adv /\ UNCHANGED <<frel, ended, active>>
Fence == /\ IsEv("fence")
         /\ frel' = IF Ev.rel = 1 THEN [frel EXCEPT ![Ev.t] = C[Ev.t] \cup (IF Ev.acq = 1 THEN facq[Ev.t] ELSE {})] ELSE frel
         /\ C' = IF Ev.acq = 1 THEN [C EXCEPT ![Ev.t] = @ \cup facq[Ev.t]] ELSE C
         /\ Adv /\ UNCHANGED <<rel, facq, ended, active>>

\* ---- critical sections ----
Tok(e) == <<e.t, e.sid>>
Begin == /\ IsEv("begin")
         \* C08: enabled only if every conflicting ended section happens-before this point
         /\ \A x \in ended : (x.t # Ev.t /\ x.lk = Ev.lk /\ Conflict(x.m, Ev.m)) => x.tok \in C[Ev.t]
         /\ active' = active \cup {[t |-> Ev.t, lk |-> Ev.lk, m |-> Ev.m, tok |-> Tok(Ev)]}
         /\ Adv /\ UNCHANGED <<C, rel, frel, facq, ended>>
End == /\ IsEv("end")
       /\ C' = [C EXCEPT ![Ev.t] = @ \cup {Tok(Ev)}]
       /\ ended' = ended \cup {x \in active : x.tok = Tok(Ev)}
       /\ active' = {x \in active : x.tok # Tok(Ev)}
       /\ Adv /\ UNCHANGED <<rel, frel, facq>>
\* client-side synchronisation (thread start/join in the harness)
Sync == /\ IsEv("sync")
        /\ C' = [C EXCEPT ![Ev.t] = @ \cup C[Ev.u]]
        /\ Adv /\ UNCHANGED <<rel, frel, facq, ended, active>>
Reset == /\ IsEv("reset")
         /\ C' = [t \in Threads |-> {}] /\ rel' = [x \in Locs |-> {}]
         /\ frel' = [t \in Threads |-> {}] /\ facq' = [t \in Threads |-> {}]
         /\ ended' = {} /\ active' = {}
         /\ Adv

Next == Load \/ Store \/ Rmw \/ Fence \/ Begin \/ End \/ Sync \/ Reset
Spec == Init /\ [][Next]_vars

Progress == IF l > TLCGet(1) THEN TLCSet(1, l) ELSE TRUE
Accepted == /\ PrintT(<<"MAXL", TLCGet(1), "LEN", Len(Tr)>>)
            /\ TLCGet(1) = Len(Tr) + 1
=============================================================================
