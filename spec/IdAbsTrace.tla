----------------------------- MODULE IdAbsTrace -----------------------------
(***************************************************************************)
(* Level 1 for IDManager, bound to real executions (B2).  A thread is      *)
(* "running" from the return of its first GetThreadID until its body ends  *)
(* (tend: thread-exit cleanup begins), "exiting" until its thread-local    *)
(* destructors are done (texit), then "dead".                              *)
(*   CkUnique    C05  range, stability, uniqueness among running threads   *)
(*   CkCapacity  C14  the run may stop with a pending GetThreadID only if  *)
(*                    every ID is held by a thread that is not dead        *)
(*   CkHeartbeat C15  own heartbeat unexpired while running, expired when  *)
(*                    dead; at an ID hand-over every heartbeat of earlier  *)
(*                    owners is expired (stale = 0)                        *)
(***************************************************************************)
EXTENDS Naturals, Integers, Sequences, FiniteSets, TLC, Json, IOUtils

CONSTANTS Threads, Slots, CkUnique, CkCapacity, CkHeartbeat

Tr == ndJsonDeserialize(IOEnv.TRACE)

VARIABLES l, cap, phase, tid, pend, hbo
vars == <<l, cap, phase, tid, pend, hbo>>

Clean == /\ phase = [t \in Threads |-> "new"]
         /\ tid = [t \in Threads |-> -1]
         /\ pend = [t \in Threads |-> FALSE]
         /\ hbo = [k \in Slots |-> 0]
Init == Clean /\ l = 1 /\ cap = 0 /\ TLCSet(1, 1)

Ev == Tr[l]
IsEv(k) == l <= Len(Tr) /\ Tr[l].e = k
Adv == l' = l + 1

Cfg == IsEv("cfg") /\ cap' = Ev.cap /\ Adv /\ UNCHANGED <<phase, tid, pend, hbo>>

IdCall == /\ IsEv("idcall") /\ phase[Ev.t] \in {"new", "running"}
          /\ pend' = [pend EXCEPT ![Ev.t] = TRUE]
          /\ Adv /\ UNCHANGED <<cap, phase, tid, hbo>>

Id == /\ IsEv("id") /\ pend[Ev.t]
      /\ CkUnique => /\ Ev.id >= 0 /\ Ev.id < cap                               \* in range
                     /\ (tid[Ev.t] # -1 => Ev.id = tid[Ev.t])                   \* stable
                     /\ \A u \in Threads \ {Ev.t} :                             \* unique among running threads
                          ~(phase[u] = "running" /\ tid[u] = Ev.id)
      /\ CkHeartbeat => (tid[Ev.t] = -1 => Ev.stale = 0)                        \* earlier owners' heartbeats expired
      /\ tid' = [tid EXCEPT ![Ev.t] = Ev.id]
      /\ phase' = [phase EXCEPT ![Ev.t] = "running"]
      /\ pend' = [pend EXCEPT ![Ev.t] = FALSE]
      /\ Adv /\ UNCHANGED <<cap, hbo>>

HbGet == /\ IsEv("hbget")
         /\ CkHeartbeat => Ev.x = 0
         /\ hbo' = [hbo EXCEPT ![Ev.k] = Ev.t]
         /\ Adv /\ UNCHANGED <<cap, phase, tid, pend>>

Exp == /\ IsEv("exp")
       /\ (CkHeartbeat /\ Ev.owner # 0) =>
            /\ phase[Ev.owner] = "running" => Ev.x = 0
            /\ phase[Ev.owner] = "dead" => Ev.x = 1
       /\ Adv /\ UNCHANGED <<cap, phase, tid, pend, hbo>>

TEnd == /\ IsEv("tend")
        /\ phase' = [phase EXCEPT ![Ev.t] = IF tid[Ev.t] = -1 THEN "dead" ELSE "exiting"]
        /\ Adv /\ UNCHANGED <<cap, tid, pend, hbo>>
TExit == /\ IsEv("texit")
         /\ phase' = [phase EXCEPT ![Ev.t] = "dead"]
         /\ Adv /\ UNCHANGED <<cap, tid, pend, hbo>>
Other == /\ (IsEv("bar") \/ IsEv("skip"))
         /\ Adv /\ UNCHANGED <<cap, phase, tid, pend, hbo>>

Held == {i \in 0..(cap - 1) : \E t \in Threads : tid[t] = i /\ phase[t] \in {"running", "exiting"}}
Stuck == /\ IsEv("stuck")
         /\ CkCapacity => Cardinality(Held) = cap
         /\ Adv /\ UNCHANGED <<cap, phase, tid, pend, hbo>>

Reset == /\ IsEv("reset")
         /\ phase' = [t \in Threads |-> "new"] /\ tid' = [t \in Threads |-> -1]
         /\ pend' = [t \in Threads |-> FALSE] /\ hbo' = [k \in Slots |-> 0]
         /\ Adv /\ UNCHANGED cap

Next == Cfg \/ IdCall \/ Id \/ HbGet \/ Exp \/ TEnd \/ TExit \/ Other \/ Stuck \/ Reset
Spec == Init /\ [][Next]_vars
Progress == IF l > TLCGet(1) THEN TLCSet(1, l) ELSE TRUE
Accepted == /\ PrintT(<<"MAXL", TLCGet(1), "LEN", Len(Tr)>>)
            /\ TLCGet(1) = Len(Tr) + 1
=============================================================================
