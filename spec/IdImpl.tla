------------------------------- MODULE IdImpl -------------------------------
(***************************************************************************)
(* Level 2: IDManager as implemented (src/thread/id_manager.cpp).          *)
(*   flag[i]   the reservation flag of ID i (_id_vec)                      *)
(* per OS thread w:                                                        *)
(*   ws[w]  "new" | "probing" | "xchg" | "running" | "exit1" | "exit2" |   *)
(*          "dead"                                                         *)
(*   pos[w] probe position (starts at the thread hash, chosen freely: all  *)
(*          hashes including full collisions are explored)                 *)
(*   id[w]  the ID it obtained; hb[w] its heartbeat is unexpired           *)
(* GetThreadID: ++pos (wrapping); load flag[pos]; if clear, exchange(true);*)
(* repeat until the exchange returned false.  Thread exit (~HeartBeater)   *)
(* has two steps whose order is the constant ExitOrder, read off the       *)
(* running code (B4): "hb_first" = expire the heartbeat, then clear the    *)
(* flag; "flag_first" = the other way round.                               *)
(***************************************************************************)
EXTENDS Naturals, FiniteSets, TLC

CONSTANTS Workers, N, ExitOrder, MaxGen

VARIABLES flag, ws, pos, id, hb, gen, hist
vars == <<flag, ws, pos, id, hb, gen, hist>>
IDs == 0..(N - 1)

Init == /\ flag = [i \in IDs |-> FALSE]
        /\ ws = [w \in Workers |-> "new"]
        /\ pos = [w \in Workers |-> 0]
        /\ id = [w \in Workers |-> 0]
        /\ hb = [w \in Workers |-> FALSE]
        /\ gen = [w \in Workers |-> 0]      \* how often the OS-thread slot w was (re)started
        /\ hist = {}                        \* ghost: <<w, gen, id>> of every heartbeat ever handed out

\* a new OS thread starts calling GetThreadID; its hash is arbitrary
Start(w) == /\ ws[w] = "new" /\ gen[w] < MaxGen
            /\ \E h \in IDs : pos' = [pos EXCEPT ![w] = h]
            /\ ws' = [ws EXCEPT ![w] = "probing"] /\ gen' = [gen EXCEPT ![w] = gen[w] + 1]
            /\ UNCHANGED <<flag, id, hb, hist>>
\* ++id (wrapping), then the relaxed load of the flag
ProbeLoad(w) == /\ ws[w] = "probing"
                /\ LET i == (pos[w] + 1) % N IN
                   /\ pos' = [pos EXCEPT ![w] = i]
                   /\ ws' = [ws EXCEPT ![w] = IF flag[i] THEN "probing" ELSE "xchg"]
                /\ UNCHANGED <<flag, id, hb, gen, hist>>
\* the exchange decides
ProbeXchg(w) == /\ ws[w] = "xchg"
                /\ IF flag[pos[w]]
                   THEN /\ ws' = [ws EXCEPT ![w] = "probing"] /\ UNCHANGED <<flag, id, hb, hist>>
                   ELSE /\ flag' = [flag EXCEPT ![pos[w]] = TRUE]
                        /\ id' = [id EXCEPT ![w] = pos[w]] /\ hb' = [hb EXCEPT ![w] = TRUE]
                        /\ hist' = hist \cup {<<w, gen[w], pos[w]>>}
                        /\ ws' = [ws EXCEPT ![w] = "running"]
                /\ UNCHANGED <<pos, gen>>
\* thread exit: body ends (exit1 = cleanup begun), then the two steps of ~HeartBeater
ExitBegin(w) == /\ ws[w] = "running" /\ ws' = [ws EXCEPT ![w] = "exit1"]
                /\ UNCHANGED <<flag, pos, id, hb, gen, hist>>
ExitA(w) == /\ ws[w] = "exit1" /\ ws' = [ws EXCEPT ![w] = "exit2"]
            /\ IF ExitOrder = "hb_first"
               THEN hb' = [hb EXCEPT ![w] = FALSE] /\ UNCHANGED flag
               ELSE flag' = [flag EXCEPT ![id[w]] = FALSE] /\ UNCHANGED hb
            /\ UNCHANGED <<pos, id, gen, hist>>
ExitB(w) == /\ ws[w] = "exit2" /\ ws' = [ws EXCEPT ![w] = "dead"]
            /\ IF ExitOrder = "hb_first"
               THEN flag' = [flag EXCEPT ![id[w]] = FALSE] /\ UNCHANGED hb
               ELSE hb' = [hb EXCEPT ![w] = FALSE] /\ UNCHANGED flag
            /\ UNCHANGED <<pos, id, gen, hist>>
\* the OS may start another thread in the same model slot (generations)
Respawn(w) == /\ ws[w] = "dead" /\ gen[w] < MaxGen /\ ws' = [ws EXCEPT ![w] = "new"]
              /\ UNCHANGED <<flag, pos, id, hb, gen, hist>>

Step(w) == Start(w) \/ ProbeLoad(w) \/ ProbeXchg(w) \/ ExitBegin(w) \/ ExitA(w) \/ ExitB(w) \/ Respawn(w)
Next == \E w \in Workers : Step(w)
Spec == Init /\ [][Next]_vars
\* every thread that runs eventually exits; the scheduler is fair
FairSpec == Spec /\ \A w \in Workers : WF_vars(Step(w))

-----------------------------------------------------------------------------
HasID(w) == ws[w] \in {"running", "exit1", "exit2"}
\* C05: IDs of threads that are still executing user code are pairwise different (and in range by typing)
UniqueIDs == \A a, b \in Workers : (a # b /\ ws[a] = "running" /\ ws[b] = "running") => id[a] # id[b]
InRange == \A w \in Workers : HasID(w) => id[w] \in IDs
\* C15: an unexpired heartbeat identifies at most one thread per ID; while running the own heartbeat is unexpired
HBUnique == \A a, b \in Workers : (a # b /\ hb[a] /\ hb[b]) => id[a] # id[b]
HBAlive == \A w \in Workers : ws[w] = "running" => hb[w]
HBDead == \A w \in Workers : ws[w] \in {"dead", "new"} => ~hb[w]
\* the flags are exactly the IDs in use (plus the one-step window of the exit path): capacity is never lost (C14)
FlagsOK == \A i \in IDs : flag[i] => \E w \in Workers : HasID(w) /\ id[w] = i
AllDone == \A w \in Workers : ws[w] = "dead" \/ (ws[w] = "new" /\ gen[w] >= MaxGen)
FreeAtEnd == AllDone => \A i \in IDs : ~flag[i]
NoDeadlock == AllDone \/ ENABLED Next
\* C14: every thread that asks for an ID gets one (holders eventually exit)
GetsID == \A w \in Workers : (ws[w] = "probing") ~> (ws[w] = "running")
Termination == <>AllDone
=============================================================================
