----------------------------- MODULE IdImplTrace -----------------------------
(***************************************************************************)
(* Binding B1 for IDManager: the atomic operations on the reservation      *)
(* flags recorded from real threads (probe loads, exchanges, the clearing  *)
(* store of the exit path) must be the steps of IdImpl, with the same flag *)
(* index and the same value read.  ExitOrder is the order observed in the  *)
(* real exit path (x = was the heartbeat already expired when the flag was *)
(* cleared), so the model that TLC checks is the model of the code as is.  *)
(***************************************************************************)
EXTENDS IdImpl, Sequences, Json, IOUtils

VARIABLE l
Tr == ndJsonDeserialize(IOEnv.TRACE)
tvars == <<vars, l>>
Ev == Tr[l]
IsEv(k) == l <= Len(Tr) /\ Tr[l].e = k
Adv == l' = l + 1
B(x) == IF x THEN 1 ELSE 0

TInit == Init /\ l = 1 /\ TLCSet(1, 1)
TStart == /\ IsEv("start") /\ Start(Ev.t) /\ pos'[Ev.t] = Ev.h % N /\ Adv
TLoad == /\ IsEv("ld") /\ ProbeLoad(Ev.t) /\ pos'[Ev.t] = Ev.i /\ B(flag[Ev.i]) = Ev.v /\ Adv
TXchg == /\ IsEv("xc") /\ ProbeXchg(Ev.t) /\ pos[Ev.t] = Ev.i /\ B(flag[Ev.i]) = Ev.v /\ Adv
TGot == /\ IsEv("got") /\ ws[Ev.t] = "running" /\ id[Ev.t] = Ev.id /\ Adv /\ UNCHANGED vars
TEnd == /\ IsEv("tend")
        /\ IF ws[Ev.t] = "running" THEN ExitBegin(Ev.t) ELSE (ws[Ev.t] = "new" /\ UNCHANGED vars)
        /\ Adv
\* the store that clears the flag; x = 1: the heartbeat had already expired (both exit steps are done now)
TStore == /\ IsEv("st") /\ ws[Ev.t] = "exit1" /\ id[Ev.t] = Ev.i
          /\ IF ExitOrder = "hb_first"
             THEN /\ Ev.x = 1
                  /\ ws' = [ws EXCEPT ![Ev.t] = "dead"] /\ hb' = [hb EXCEPT ![Ev.t] = FALSE]
                  /\ flag' = [flag EXCEPT ![Ev.i] = FALSE] /\ UNCHANGED <<pos, id, gen, hist>>
             ELSE Ev.x = 0 /\ ExitA(Ev.t)
          /\ Adv
TExit == /\ IsEv("texit")
         /\ IF ws[Ev.t] = "exit2" THEN ExitB(Ev.t) ELSE (ws[Ev.t] \in {"dead", "new"} /\ UNCHANGED vars)
         /\ Adv
TReset == /\ IsEv("reset")
          /\ flag' = [i \in IDs |-> FALSE] /\ ws' = [w \in Workers |-> "new"] /\ pos' = [w \in Workers |-> 0]
          /\ id' = [w \in Workers |-> 0] /\ hb' = [w \in Workers |-> FALSE] /\ gen' = [w \in Workers |-> 0] /\ hist' = {}
          /\ Adv
TNext == TStart \/ TLoad \/ TXchg \/ TGot \/ TEnd \/ TStore \/ TExit \/ TReset
TSpec == TInit /\ [][TNext]_tvars
Progress == IF l > TLCGet(1) THEN TLCSet(1, l) ELSE TRUE
Accepted == /\ PrintT(<<"MAXL", TLCGet(1), "LEN", Len(Tr)>>)
            /\ TLCGet(1) = Len(Tr) + 1
=============================================================================
