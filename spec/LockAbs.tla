------------------------------ MODULE LockAbs ------------------------------
(***************************************************************************)
(* Level 1: the abstract S/SIX/X lock family with versions, as a user of   *)
(* PessimisticLock / OptimisticLock / MCSLock may observe it.  State is    *)
(* kept per GUARD OBJECT (guards move, and may be handed between threads). *)
(* Every API call is a Call event, a silent linearisation step Lin and a   *)
(* Ret event; Lin carries the semantics.  The listed properties are        *)
(* constraint families switched by the Ck* constants, so that a rejected   *)
(* history is attributed to one property:                                  *)
(*   CkCompat     C01  a grant is admitted only if compatible              *)
(*   CkProgress   C02  the run may stop (Stuck) only if no call can move   *)
(*   CkOptimistic C03  version checks are sound and complete               *)
(*   CkGuards     C07  guard booleans = ownership                          *)
(*   CkVersion    C09  versions reported = versions published              *)
(*   CkConvAtomic C10  upgrade/downgrade are one in-place step             *)
(*   CkFifo       C11  conflicting requests are granted in arrival order   *)
(*   CkPrepare    C13  PrepareRead = valid version or lock taken when free *)
(* With a switch off the corresponding choice is left open (more           *)
(* behaviours), never the other way round.                                 *)
(***************************************************************************)
EXTENDS Naturals, Integers, Sequences, FiniteSets, TLC

CONSTANTS Threads, Guards, Locks,
          CkCompat, CkProgress, CkOptimistic, CkGuards, CkVersion,
          CkConvAtomic, CkFifo, CkPrepare

VARIABLES gm,    \* gm[g] \in {"none","empty","S","SIX","X"}: slot state / owning mode
          gl,    \* gl[g]: the lock the guard refers to (0 = none)
          gv,    \* gv[g]: version carried (OptGuard/CompositeGuard sample, XGuard old version)
          gn,    \* gn[g]: version an XGuard will publish
          ver,   \* ver[l]: published version of lock l, a pair of 16-bit halves
          pend,  \* pend[t]: the pending call of thread t (a record) or NoCall
          lin,   \* lin[t] \in 0..2: 0 = not linearised, 1 = first half of a split conversion, 2 = done
          res,   \* res[t]: result fixed at the linearisation point (Verify)
          arr    \* arr[l]: requests that announced themselves on lock l and are not granted yet

absvars == <<gm, gl, gv, gn, ver, pend, lin, res, arr>>

Modes == {"S", "SIX", "X"}
Conflict(a, b) == (a = "X") \/ (b = "X") \/ (a = "SIX" /\ b = "SIX")
NoCall == [op |-> "-"]
AnyV == <<-1, -1>>
V0 == <<0, 0>>
VInc(v) == IF v = AnyV THEN AnyV
           ELSE IF v[2] = 65535 THEN <<(v[1] + 1) % 65536, 0>> ELSE <<v[1], v[2] + 1>>
VEq(a, b) == a = AnyV \/ b = AnyV \/ a = b

Grants(l) == {g \in Guards : gl[g] = l /\ gm[g] \in Modes}
XHeld(l) == \E g \in Grants(l) : gm[g] = "X"
Admissible(l, m, except) == \A g \in Grants(l) \ except : ~Conflict(m, gm[g])

AbsInit ==
  /\ gm = [g \in Guards |-> "none"]
  /\ gl = [g \in Guards |-> 0]
  /\ gv = [g \in Guards |-> V0]
  /\ gn = [g \in Guards |-> V0]
  /\ ver = [l \in Locks |-> V0]
  /\ pend = [t \in Threads |-> NoCall]
  /\ lin = [t \in Threads |-> 0]
  /\ res = [t \in Threads |-> "-"]
  /\ arr = [l \in Locks |-> <<>>]

-----------------------------------------------------------------------------
\* FIFO (C11): position of thread t in the arrival queue of l, 0 if absent
Pos(l, t) == IF \E i \in 1..Len(arr[l]) : arr[l][i][1] = t
             THEN CHOOSE i \in 1..Len(arr[l]) : arr[l][i][1] = t ELSE 0
FifoOK(l, t, m) == CkFifo => /\ Pos(l, t) > 0
                             /\ \A j \in 1..(Pos(l, t) - 1) : ~Conflict(arr[l][j][2], m)
RemoveArr(l, t) == [arr EXCEPT ![l] = SelectSeq(arr[l], LAMBDA x : x[1] # t)]

\* the version published when an exclusive grant of guard g ends
Publish(g) == IF gm[g] = "X" THEN [ver EXCEPT ![gl[g]] = gn[g]] ELSE ver

\* ---- enabling conditions of the linearisation step of a pending call c of thread t ----
AcqEnabled(t, l, m, except) ==
  /\ CkCompat => Admissible(l, m, except)
  /\ FifoOK(l, t, m)

LinEnabled(t) ==
  LET c == pend[t] IN
  CASE c.op \in {"LockS", "LockSIX", "LockX"} ->
         AcqEnabled(t, c.l, CASE c.op = "LockS" -> "S" [] c.op = "LockSIX" -> "SIX" [] OTHER -> "X", {})
    [] c.op = "Upgrade" ->
         IF gm[c.g] = "SIX" /\ lin[t] = 0 /\ CkConvAtomic
         THEN CkCompat => Admissible(gl[c.g], "X", {c.g})
         ELSE IF lin[t] = 1 THEN CkCompat => Admissible(gl[c.g], "X", {}) ELSE TRUE
    [] c.op = "Downgrade" ->
         IF lin[t] = 1 THEN CkCompat => Admissible(gl[c.g], "SIX", {}) ELSE TRUE
    [] c.op \in {"GetVersion", "Verify"} -> CkOptimistic => ~XHeld(gl[c.g])
    [] c.op = "CVerify" -> (gm[c.g] = "S") \/ (CkOptimistic => ~XHeld(gl[c.g]))
    [] c.op \in {"TryLockS", "TryLockSIX", "TryLockX"} ->
         LET m == CASE c.op = "TryLockS" -> "S" [] c.op = "TryLockSIX" -> "SIX" [] OTHER -> "X"
             l == gl[c.g] IN
         \/ (CkOptimistic => VEq(gv[c.g], ver[l])) /\ (CkCompat => Admissible(l, m, {}))
         \/ (CkOptimistic => (~VEq(gv[c.g], ver[l]) \/ gv[c.g] = AnyV) /\ ~XHeld(l))
    [] c.op = "PrepareRead" ->
         \/ (CkOptimistic \/ CkPrepare) => ~XHeld(c.l)
         \/ (CkPrepare => Grants(c.l) = {}) /\ (CkCompat => ~XHeld(c.l))
    [] OTHER -> TRUE

-----------------------------------------------------------------------------
\* ---- linearisation steps ----
Keep(vs) == UNCHANGED vs
SetG(g, m, l, v, n) == /\ gm' = [gm EXCEPT ![g] = m] /\ gl' = [gl EXCEPT ![g] = l]
                       /\ gv' = [gv EXCEPT ![g] = v] /\ gn' = [gn EXCEPT ![g] = n]

LinAcquire(t, c, m) ==
  /\ AcqEnabled(t, c.l, m, {})
  /\ SetG(c.g, m, c.l, IF m = "X" THEN ver[c.l] ELSE V0, IF m = "X" THEN VInc(ver[c.l]) ELSE V0)
  /\ arr' = RemoveArr(c.l, t)
  /\ lin' = [lin EXCEPT ![t] = 2]
  /\ UNCHANGED <<ver, pend, res>>

LinDestroy(t, c) ==
  /\ ver' = Publish(c.g)
  /\ gm' = [gm EXCEPT ![c.g] = "none"]
  /\ lin' = [lin EXCEPT ![t] = 2]
  /\ UNCHANGED <<gl, gv, gn, pend, res, arr>>

\* in-place conversion SIX -> X (one step), or release followed by acquisition (two steps)
LinUpgrade(t, c) ==
  LET l == gl[c.g] IN
  IF gm[c.g] # "SIX" /\ lin[t] = 0
  THEN /\ gm' = [gm EXCEPT ![c.h] = "empty"] /\ gl' = [gl EXCEPT ![c.h] = 0]
       /\ lin' = [lin EXCEPT ![t] = 2] /\ UNCHANGED <<gv, gn, ver, pend, res, arr>>
  ELSE \/ /\ lin[t] = 0
          /\ CkCompat => Admissible(l, "X", {c.g})
          /\ gm' = [gm EXCEPT ![c.g] = "empty", ![c.h] = "X"]
          /\ gl' = [gl EXCEPT ![c.h] = l]
          /\ gv' = [gv EXCEPT ![c.h] = ver[l]] /\ gn' = [gn EXCEPT ![c.h] = VInc(ver[l])]
          /\ lin' = [lin EXCEPT ![t] = 2] /\ UNCHANGED <<ver, pend, res, arr>>
       \/ /\ ~CkConvAtomic /\ lin[t] = 0
          /\ gm' = [gm EXCEPT ![c.g] = "empty"]
          /\ lin' = [lin EXCEPT ![t] = 1] /\ UNCHANGED <<gl, gv, gn, ver, pend, res, arr>>
       \/ /\ lin[t] = 1
          /\ CkCompat => Admissible(l, "X", {})
          /\ gm' = [gm EXCEPT ![c.h] = "X"] /\ gl' = [gl EXCEPT ![c.h] = l]
          /\ gv' = [gv EXCEPT ![c.h] = ver[l]] /\ gn' = [gn EXCEPT ![c.h] = VInc(ver[l])]
          /\ lin' = [lin EXCEPT ![t] = 2] /\ UNCHANGED <<ver, pend, res, arr>>

LinDowngrade(t, c) ==
  LET l == gl[c.g] IN
  IF gm[c.g] # "X" /\ lin[t] = 0
  THEN /\ gm' = [gm EXCEPT ![c.h] = "empty"] /\ gl' = [gl EXCEPT ![c.h] = 0]
       /\ lin' = [lin EXCEPT ![t] = 2] /\ UNCHANGED <<gv, gn, ver, pend, res, arr>>
  ELSE \/ /\ lin[t] = 0
          /\ ver' = Publish(c.g)
          /\ gm' = [gm EXCEPT ![c.g] = "empty", ![c.h] = "SIX"]
          /\ gl' = [gl EXCEPT ![c.h] = l]
          /\ lin' = [lin EXCEPT ![t] = 2] /\ UNCHANGED <<gv, gn, pend, res, arr>>
       \/ /\ ~CkConvAtomic /\ lin[t] = 0
          /\ ver' = Publish(c.g)
          /\ gm' = [gm EXCEPT ![c.g] = "empty"]
          /\ lin' = [lin EXCEPT ![t] = 1] /\ UNCHANGED <<gl, gv, gn, pend, res, arr>>
       \/ /\ lin[t] = 1
          /\ CkCompat => Admissible(l, "SIX", {})
          /\ gm' = [gm EXCEPT ![c.h] = "SIX"] /\ gl' = [gl EXCEPT ![c.h] = l]
          /\ lin' = [lin EXCEPT ![t] = 2] /\ UNCHANGED <<gv, gn, ver, pend, res, arr>>

\* h := move(g).  A moved-from guard owns nothing; an overwritten owner releases first.
LinMove(t, c, assign) ==
  /\ ver' = IF assign THEN Publish(c.h) ELSE ver
  /\ gm' = [gm EXCEPT ![c.h] = IF gm[c.g] = "none" THEN "empty" ELSE gm[c.g], ![c.g] = "empty"]
  /\ gl' = [gl EXCEPT ![c.h] = gl[c.g]]
  /\ gv' = [gv EXCEPT ![c.h] = gv[c.g]]
  /\ gn' = [gn EXCEPT ![c.h] = gn[c.g]]
  /\ lin' = [lin EXCEPT ![t] = 2]
  /\ UNCHANGED <<pend, res, arr>>

LinGetVersion(t, c) ==
  /\ CkOptimistic => ~XHeld(c.l)
  /\ SetG(c.g, "empty", c.l, IF CkOptimistic \/ CkVersion THEN ver[c.l] ELSE AnyV, V0)
  /\ lin' = [lin EXCEPT ![t] = 2]
  /\ UNCHANGED <<ver, pend, res, arr>>

LinVerify(t, c) ==
  LET l == gl[c.g] IN
  IF c.op = "CVerify" /\ gm[c.g] = "S"
  THEN /\ res' = [res EXCEPT ![t] = "T"] /\ lin' = [lin EXCEPT ![t] = 2]
       /\ UNCHANGED <<gm, gl, gv, gn, ver, pend, arr>>
  ELSE /\ CkOptimistic => ~XHeld(l)
       /\ res' = [res EXCEPT ![t] = IF ~CkOptimistic \/ gv[c.g] = AnyV THEN "?"
                                    ELSE IF gv[c.g] = ver[l] THEN "T" ELSE "F"]
       /\ gv' = [gv EXCEPT ![c.g] = IF CkOptimistic THEN ver[l] ELSE AnyV]
       /\ lin' = [lin EXCEPT ![t] = 2]
       /\ UNCHANGED <<gm, gl, gn, ver, pend, arr>>

LinTryLock(t, c, m) ==
  LET l == gl[c.g] IN
  \/ /\ CkOptimistic => VEq(gv[c.g], ver[l])             \* success: the version is current
     /\ CkCompat => Admissible(l, m, {})
     /\ gm' = [gm EXCEPT ![c.h] = m] /\ gl' = [gl EXCEPT ![c.h] = l]
     /\ gv' = [gv EXCEPT ![c.h] = IF m = "X" THEN ver[l] ELSE V0]
     /\ gn' = [gn EXCEPT ![c.h] = IF m = "X" THEN VInc(ver[l]) ELSE V0]
     /\ lin' = [lin EXCEPT ![t] = 2] /\ UNCHANGED <<ver, pend, res, arr>>
  \/ /\ CkOptimistic => (gv[c.g] # ver[l] /\ ~XHeld(l))  \* failure: the version really changed
     /\ gm' = [gm EXCEPT ![c.h] = "empty"] /\ gl' = [gl EXCEPT ![c.h] = 0]
     /\ gv' = [gv EXCEPT ![c.g] = IF CkOptimistic THEN ver[l] ELSE AnyV]
     /\ lin' = [lin EXCEPT ![t] = 2] /\ UNCHANGED <<gn, ver, pend, res, arr>>

LinPrepareRead(t, c) ==
  \/ /\ (CkOptimistic \/ CkPrepare) => ~XHeld(c.l)       \* a version sampled without exclusive holder
     /\ SetG(c.g, "empty", c.l, IF CkOptimistic \/ CkPrepare \/ CkVersion THEN ver[c.l] ELSE AnyV, V0)
     /\ lin' = [lin EXCEPT ![t] = 2] /\ UNCHANGED <<ver, pend, res, arr>>
  \/ /\ CkPrepare => Grants(c.l) = {}                    \* a real shared grant on a free lock
     /\ CkCompat => ~XHeld(c.l)
     /\ SetG(c.g, "S", c.l, AnyV, V0)
     /\ lin' = [lin EXCEPT ![t] = 2] /\ UNCHANGED <<ver, pend, res, arr>>

Lin(t) ==
  /\ pend[t] # NoCall /\ lin[t] < 2
  /\ LET c == pend[t] IN
     CASE c.op = "LockS" -> LinAcquire(t, c, "S")
       [] c.op = "LockSIX" -> LinAcquire(t, c, "SIX")
       [] c.op = "LockX" -> LinAcquire(t, c, "X")
       [] c.op = "Destroy" -> LinDestroy(t, c)
       [] c.op = "Upgrade" -> LinUpgrade(t, c)
       [] c.op = "Downgrade" -> LinDowngrade(t, c)
       [] c.op = "MoveCtor" -> LinMove(t, c, FALSE)
       [] c.op = "MoveAssign" -> LinMove(t, c, TRUE)
       [] c.op = "GetVersion" -> LinGetVersion(t, c)
       [] c.op \in {"Verify", "CVerify"} -> LinVerify(t, c)
       [] c.op = "TryLockS" -> LinTryLock(t, c, "S")
       [] c.op = "TryLockSIX" -> LinTryLock(t, c, "SIX")
       [] c.op = "TryLockX" -> LinTryLock(t, c, "X")
       [] c.op = "PrepareRead" -> LinPrepareRead(t, c)

-----------------------------------------------------------------------------
\* ---- what a return may report, given the state after the linearisation point ----
B(x) == IF x THEN 1 ELSE 0
RetOK(t, c, e) ==
  CASE c.op \in {"LockS", "LockSIX", "LockX"} ->
         /\ CkGuards => e.b = 1
         /\ (CkVersion /\ c.op = "LockX" /\ e.vh >= 0) => VEq(<<e.vh, e.vl>>, gv[c.g])
    [] c.op = "Upgrade" ->
         /\ CkGuards => (e.sb = 0 /\ e.b = B(gm[c.h] = "X"))
         /\ (CkVersion /\ e.vh >= 0 /\ gm[c.h] = "X") => VEq(<<e.vh, e.vl>>, gv[c.h])
    [] c.op = "Downgrade" -> CkGuards => (e.sb = 0 /\ e.b = B(gm[c.h] = "SIX"))
    [] c.op \in {"MoveCtor", "MoveAssign"} -> CkGuards => (e.sb = 0 /\ e.b = B(gm[c.h] \in Modes))
    [] c.op = "GetVersion" ->
         /\ CkGuards => e.b = 0
         /\ (CkVersion \/ CkOptimistic) => VEq(<<e.vh, e.vl>>, gv[c.g])
    [] c.op = "Verify" ->
         /\ CkOptimistic => (res[t] = "?" \/ e.r = B(res[t] = "T"))
         /\ CkOptimistic => VEq(<<e.vh, e.vl>>, gv[c.g])
    [] c.op = "CVerify" ->
         /\ (CkOptimistic \/ CkPrepare) => (res[t] = "?" \/ e.r = B(res[t] = "T"))
         /\ CkGuards => e.b = B(gm[c.g] = "S")
    [] c.op \in {"TryLockS", "TryLockSIX", "TryLockX"} ->
         /\ e.b = B(gm[c.h] \in Modes)            \* the outcome selects the branch taken at Lin
         /\ CkOptimistic => VEq(<<e.vh, e.vl>>, gv[c.g])
         /\ (CkVersion /\ c.op = "TryLockX" /\ e.b = 1) => VEq(<<e.xh, e.xl>>, gv[c.h])
    [] c.op = "PrepareRead" ->
         /\ e.b = B(gm[c.g] = "S")
         /\ ((CkOptimistic \/ CkPrepare \/ CkVersion) /\ e.b = 0) => VEq(<<e.vh, e.vl>>, gv[c.g])
    [] OTHER -> TRUE

\* ---- single-event operations (no shared effect) ----
Inst(t, e) ==
  CASE e.op = "Default" ->
         /\ gm' = [gm EXCEPT ![e.g] = "empty"] /\ gl' = [gl EXCEPT ![e.g] = 0]
         /\ CkGuards => e.b = 0
         /\ UNCHANGED <<gv, gn, ver, pend, lin, res, arr>>
    [] e.op = "Bool" ->
         /\ CkGuards => e.b = B(gm[e.g] \in Modes)
         /\ UNCHANGED absvars
    [] e.op = "SetVersion" ->
         /\ gn' = [gn EXCEPT ![e.g] = <<e.vh, e.vl>>]
         /\ UNCHANGED <<gm, gl, gv, ver, pend, lin, res, arr>>
    [] e.op = "XVersion" ->
         /\ CkVersion => VEq(<<e.vh, e.vl>>, gv[e.g])
         /\ UNCHANGED absvars
    [] OTHER -> UNCHANGED absvars

\* the run stopped with these calls pending: legal only if none of them can move
StuckOK == CkProgress => \A t \in Threads : pend[t] # NoCall => (lin[t] < 2 /\ ~LinEnabled(t))
=============================================================================
