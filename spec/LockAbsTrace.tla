--------------------------- MODULE LockAbsTrace ---------------------------
(***************************************************************************)
(* Binding B2: API histories recorded from real executions of the lock     *)
(* classes must be behaviours of LockAbs.  The file named by the TRACE     *)
(* environment variable holds many executions separated by "reset".        *)
(* Acceptance: the longest explained prefix (TLC register 1) covers the    *)
(* whole file (POSTCONDITION).                                             *)
(***************************************************************************)
EXTENDS LockAbs, Json, IOUtils

VARIABLE l
Tr == ndJsonDeserialize(IOEnv.TRACE)
vars == <<absvars, l>>

Ev == Tr[l]
IsEv(k) == l <= Len(Tr) /\ Tr[l].e = k
Adv == l' = l + 1

TInit == AbsInit /\ l = 1 /\ TLCSet(1, 1)

TCall == /\ IsEv("call") /\ pend[Ev.t] = NoCall
         /\ pend' = [pend EXCEPT ![Ev.t] = Ev]
         /\ lin' = [lin EXCEPT ![Ev.t] = 0]
         /\ Adv /\ UNCHANGED <<gm, gl, gv, gn, ver, res, arr>>

TLin == \E t \in Threads : Lin(t) /\ UNCHANGED l

TRet == /\ IsEv("ret") /\ pend[Ev.t] # NoCall /\ pend[Ev.t].op = Ev.op /\ lin[Ev.t] = 2
        /\ RetOK(Ev.t, pend[Ev.t], Ev)
        /\ pend' = [pend EXCEPT ![Ev.t] = NoCall]
        /\ Adv /\ UNCHANGED <<gm, gl, gv, gn, ver, lin, res, arr>>

TInst == /\ IsEv("inst") /\ pend[Ev.t] = NoCall
         /\ Inst(Ev.t, Ev) /\ Adv

TArrive == /\ IsEv("arrive") /\ pend[Ev.t] # NoCall /\ lin[Ev.t] = 0
           /\ arr' = [arr EXCEPT ![Ev.l] = Append(arr[Ev.l], <<Ev.t, Ev.m>>)]
           /\ Adv /\ UNCHANGED <<gm, gl, gv, gn, ver, pend, lin, res>>

TStuck == /\ IsEv("stuck") /\ StuckOK
          /\ Adv /\ UNCHANGED absvars

TReset == /\ IsEv("reset")
          /\ gm' = [g \in Guards |-> "none"] /\ gl' = [g \in Guards |-> 0]
          /\ gv' = [g \in Guards |-> V0] /\ gn' = [g \in Guards |-> V0]
          /\ ver' = [k \in Locks |-> V0] /\ pend' = [t \in Threads |-> NoCall]
          /\ lin' = [t \in Threads |-> 0] /\ res' = [t \in Threads |-> "-"]
          /\ arr' = [k \in Locks |-> <<>>]
          /\ Adv

TNext == TCall \/ TLin \/ TRet \/ TInst \/ TArrive \/ TStuck \/ TReset
TSpec == TInit /\ [][TNext]_vars

\* longest explained prefix, kept in a TLC register (single worker)
Progress == IF l > TLCGet(1) THEN TLCSet(1, l) ELSE TRUE
Accepted == /\ PrintT(<<"MAXL", TLCGet(1), "LEN", Len(Tr)>>)
            /\ TLCGet(1) = Len(Tr) + 1
=============================================================================
