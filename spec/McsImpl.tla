------------------------------ MODULE McsImpl ------------------------------
(***************************************************************************)
(* Level 2: MCSLock as implemented (src/lock/mcs_lock.cpp), one action per *)
(* atomic operation.                                                       *)
(*   L      lock word  [x, six, s, p]: flags of the tail group + tail node *)
(*   W[n]   node word  [x, six, s, p]: what the predecessor group still    *)
(*          holds + link to the successor node                             *)
(*   nst[n] "free" | "active" | "cached" (in a thread's tls_node_)         *)
(*   cache[t] the node in thread t's tls_node_ (0 = none)                  *)
(* per thread: pc, op (the call in progress), q (node taken for the        *)
(* request), cur (last value loaded / CAS expected value), nxt, tl (group  *)
(* node of an S request), held, hq (node the guard refers to).             *)
(* Nodes are numbered in allocation order and never renumbered.            *)
(* Ghosts: arr (arrival order, C11), HB clocks per location (C08).         *)
(* Spin loops are awaits.  Programs are nondeterministic (MaxOps calls).   *)
(***************************************************************************)
EXTENDS Naturals, Sequences, FiniteSets, TLC

CONSTANTS Threads, NNodes, MaxOps, MO, WithHB, WithConv,
          Allowed      \* Allowed[t]: the modes thread t may request (restricts the nondeterministic programs)

VARIABLES L, W, nst, cache, nalloc, pc, op, q, cur, nxt, tl, held, hq, nops, exited,
          arr, fifoOK, sid, nsec, ended, C, relL, relW
vars == <<L, W, nst, cache, nalloc, pc, op, q, cur, nxt, tl, held, hq, nops, exited,
          arr, fifoOK, sid, nsec, ended, C, relL, relW>>

Sites == {"S_init", "S_load", "S_cas", "S_casf", "S_spinL", "S_link", "S_spinN",
          "X_init", "X_xchg", "X_flags", "X_link", "X_spin",
          "US_load", "US_loadL", "US_cas", "US_casf", "US_link", "US_fsub",
          "USIX_spin", "USIX_loadL", "USIX_cas", "USIX_casf", "USIX_link", "USIX_fxor",
          "UX_load", "UX_loadL", "UX_cas", "UX_casf", "UX_link", "UX_fxor",
          "UP_spin", "UP_loadL", "UP_cas", "UP_casf", "UP_link", "UP_fxor",
          "DN_load", "DN_loadL", "DN_cas", "DN_casf", "DN_link", "DN_fxor"}
Nodes == 1..NNodes
Null == 0
Word(x, six, s, p) == [x |-> x, six |-> six, s |-> s, p |-> p]
Zero == Word(FALSE, FALSE, 0, Null)
NoFlags(w) == ~w.x /\ ~w.six /\ w.s = 0
Modes == {"S", "SIX", "X"}
Conflict(a, b) == (a = "X") \/ (b = "X") \/ (a = "SIX" /\ b = "SIX")
IsAcq(m) == m \in {"acq", "acqrel", "sc"}
IsRel(m) == m \in {"rel", "acqrel", "sc"}

Init == /\ L = Zero /\ W = [n \in Nodes |-> Zero]
        /\ nst = [n \in Nodes |-> "free"] /\ cache = [t \in Threads |-> Null] /\ nalloc = 0
        /\ pc = [t \in Threads |-> "idle"] /\ op = [t \in Threads |-> "-"]
        /\ q = [t \in Threads |-> Null] /\ cur = [t \in Threads |-> Zero]
        /\ nxt = [t \in Threads |-> Null] /\ tl = [t \in Threads |-> Null]
        /\ held = [t \in Threads |-> "none"] /\ hq = [t \in Threads |-> Null]
        /\ nops = [t \in Threads |-> 0] /\ exited = {}
        /\ arr = <<>> /\ fifoOK = TRUE
        /\ sid = [t \in Threads |-> <<0, 0>>] /\ nsec = [t \in Threads |-> 0] /\ ended = {}
        /\ C = [t \in Threads |-> {}] /\ relL = {} /\ relW = [n \in Nodes |-> {}]

-----------------------------------------------------------------------------
\* ---- happens-before ghost: loc = 0 is the lock word, loc = n > 0 the word of node n ----
RelOf(loc) == IF loc = 0 THEN relL ELSE relW[loc]
SetRel(loc, r) == IF loc = 0 THEN relL' = r /\ UNCHANGED relW ELSE relW' = [relW EXCEPT ![loc] = r] /\ UNCHANGED relL
LoadHB(t, site, loc)  == /\ C' = IF WithHB /\ IsAcq(MO[site]) THEN [C EXCEPT ![t] = C[t] \cup RelOf(loc)] ELSE C
                         /\ UNCHANGED <<relL, relW>>
RmwHB(t, site, loc)   == IF WithHB
                         THEN LET c1 == IF IsAcq(MO[site]) THEN C[t] \cup RelOf(loc) ELSE C[t] IN
                              /\ C' = [C EXCEPT ![t] = c1]
                              /\ SetRel(loc, IF IsRel(MO[site]) THEN RelOf(loc) \cup c1 ELSE RelOf(loc))
                         ELSE UNCHANGED <<C, relL, relW>>
StoreHB(t, site, loc) == IF WithHB THEN SetRel(loc, IF IsRel(MO[site]) THEN C[t] ELSE {}) /\ UNCHANGED C
                         ELSE UNCHANGED <<C, relL, relW>>
NoHB == UNCHANGED <<C, relL, relW>>
KeepSec == UNCHANGED <<sid, nsec, ended>>
\* a section begins (grant / conversion completes) or ends (call of the releasing / converting operation)
BeginSec(t, m, n) == /\ held' = [held EXCEPT ![t] = m] /\ hq' = [hq EXCEPT ![t] = n]
                     /\ nsec' = [nsec EXCEPT ![t] = nsec[t] + 1]
                     /\ sid' = [sid EXCEPT ![t] = <<t, nsec[t] + 1>>]
                     /\ UNCHANGED ended
EndSecC(t) == IF WithHB THEN [C EXCEPT ![t] = C[t] \cup {sid[t]}] ELSE C
EndSecE(t) == IF WithHB THEN ended \cup {[tok |-> sid[t], m |-> held[t]]} ELSE ended

\* ---- arrival order ghost (C11) ----
Arrive(t, m) == arr' = Append(arr, <<t, m>>) /\ UNCHANGED fifoOK
IdxOf(t) == CHOOSE i \in 1..Len(arr) : arr[i][1] = t
Granted(t, m) == LET i == IdxOf(t) IN
                 /\ fifoOK' = (fifoOK /\ \A j \in 1..(i - 1) : ~Conflict(arr[j][2], m))
                 /\ arr' = [k \in 1..(Len(arr) - 1) |-> IF k < i THEN arr[k] ELSE arr[k + 1]]
NoArr == UNCHANGED <<arr, fifoOK>>

Goto(t, l) == pc' = [pc EXCEPT ![t] = l]
\* tls_node_.reset(n): the node cached so far (if any, and different) is freed, n becomes the cached node
ResetCache(t, n) ==
  /\ cache' = [cache EXCEPT ![t] = n]
  /\ nst' = [k \in Nodes |-> IF k = n THEN "cached"
                             ELSE IF k = cache[t] /\ cache[t] # Null THEN "free" ELSE nst[k]]
KeepPool == UNCHANGED <<nst, cache, nalloc>>
Release(t) == held' = [held EXCEPT ![t] = "none"] /\ hq' = [hq EXCEPT ![t] = Null]

-----------------------------------------------------------------------------
\* ---- calls: Lock* takes the cached node or allocates the next one ----
CallLock(t, m) ==
  /\ pc[t] = "idle" /\ held[t] = "none" /\ nops[t] < MaxOps /\ t \notin exited /\ m \in Allowed[t]
  /\ IF cache[t] # Null
     THEN /\ q' = [q EXCEPT ![t] = cache[t]] /\ cache' = [cache EXCEPT ![t] = Null]
          /\ nst' = [nst EXCEPT ![cache[t]] = "active"] /\ UNCHANGED nalloc
     ELSE /\ nalloc < NNodes
          /\ q' = [q EXCEPT ![t] = nalloc + 1] /\ nalloc' = nalloc + 1
          /\ nst' = [nst EXCEPT ![nalloc + 1] = "active"] /\ UNCHANGED cache
  /\ op' = [op EXCEPT ![t] = m] /\ nops' = [nops EXCEPT ![t] = nops[t] + 1]
  /\ Goto(t, IF m = "S" THEN "LS1" ELSE "LX1")
  /\ NoArr /\ NoHB /\ KeepSec /\ UNCHANGED <<L, W, cur, nxt, tl, held, hq, exited>>
CallUnlock(t) ==
  /\ pc[t] = "idle" /\ held[t] \in Modes
  /\ C' = EndSecC(t) /\ ended' = EndSecE(t)
  /\ op' = [op EXCEPT ![t] = "U"]
  /\ Goto(t, CASE held[t] = "S" -> "US1" [] held[t] = "SIX" -> "USI1" [] OTHER -> "UX1")
  /\ NoArr /\ KeepPool /\ UNCHANGED <<L, W, q, cur, nxt, tl, held, hq, nops, exited, sid, nsec, relL, relW>>
CallUpgrade(t) ==
  /\ WithConv /\ pc[t] = "idle" /\ held[t] = "SIX" /\ nops[t] < MaxOps
  /\ C' = EndSecC(t) /\ ended' = EndSecE(t)
  /\ op' = [op EXCEPT ![t] = "UP"] /\ nops' = [nops EXCEPT ![t] = nops[t] + 1] /\ Goto(t, "UP1")
  /\ NoArr /\ KeepPool /\ UNCHANGED <<L, W, q, cur, nxt, tl, held, hq, exited, sid, nsec, relL, relW>>
CallDowngrade(t) ==
  /\ WithConv /\ pc[t] = "idle" /\ held[t] = "X" /\ nops[t] < MaxOps
  /\ C' = EndSecC(t) /\ ended' = EndSecE(t)
  /\ op' = [op EXCEPT ![t] = "DN"] /\ nops' = [nops EXCEPT ![t] = nops[t] + 1] /\ Goto(t, "DN1")
  /\ NoArr /\ KeepPool /\ UNCHANGED <<L, W, q, cur, nxt, tl, held, hq, exited, sid, nsec, relL, relW>>
\* thread exit: the cached node is freed (destructor of tls_node_)
ExitBody(t) ==
  /\ pc[t] = "idle" /\ held[t] = "none" /\ t \notin exited
  /\ exited' = exited \cup {t}
  /\ nst' = IF cache[t] # Null THEN [nst EXCEPT ![cache[t]] = "free"] ELSE nst
  /\ cache' = [cache EXCEPT ![t] = Null]
  /\ NoArr /\ NoHB /\ KeepSec /\ UNCHANGED <<L, W, nalloc, pc, op, q, cur, nxt, tl, held, hq, nops>>

Exit(t) == nops[t] >= MaxOps /\ ExitBody(t)

Keep1 == NoArr /\ KeepPool /\ KeepSec /\ UNCHANGED <<op, nops, exited>>
-----------------------------------------------------------------------------
\* ---- LockSIX / LockX ----
LX1(t) == /\ pc[t] = "LX1"                                   \* qnode->store(kXLock)
          /\ W' = [W EXCEPT ![q[t]] = Word(TRUE, FALSE, 0, Null)]
          /\ StoreHB(t, "X_init", q[t]) /\ Goto(t, "LX2")
          /\ Keep1 /\ UNCHANGED <<L, q, cur, nxt, tl, held, hq>>
LX2(t) == /\ pc[t] = "LX2"                                   \* cur = lock_.exchange(q | mode)
          /\ cur' = [cur EXCEPT ![t] = L]
          /\ L' = IF op[t] = "X" THEN Word(TRUE, FALSE, 0, q[t]) ELSE Word(FALSE, TRUE, 0, q[t])
          /\ RmwHB(t, "X_xchg", 0) /\ Arrive(t, op[t]) /\ Goto(t, "LX3")
          /\ KeepPool /\ KeepSec /\ UNCHANGED <<W, q, nxt, tl, held, hq, op, nops, exited>>
LX3(t) == /\ pc[t] = "LX3"                                   \* qnode->fetch_xor(flags(cur) ^ kXLock): flags := flags(cur)
          /\ W' = [W EXCEPT ![q[t]] = Word(cur[t].x, cur[t].six, cur[t].s, W[q[t]].p)]
          /\ RmwHB(t, "X_flags", q[t])
          /\ Goto(t, IF cur[t].p # Null THEN "LX4" ELSE "LXG")
          /\ Keep1 /\ UNCHANGED <<L, q, cur, nxt, tl, held, hq>>
LX4(t) == /\ pc[t] = "LX4"                                   \* tail->fetch_add(q): publish the link
          /\ W' = [W EXCEPT ![cur[t].p].p = q[t]]
          /\ RmwHB(t, "X_link", cur[t].p) /\ Goto(t, "LX5")
          /\ Keep1 /\ UNCHANGED <<L, q, cur, nxt, tl, held, hq>>
LX5(t) == /\ pc[t] = "LX5"                                   \* spin on the own node
          /\ IF op[t] = "X" THEN NoFlags(W[q[t]]) ELSE (~W[q[t]].x /\ ~W[q[t]].six)
          /\ LoadHB(t, "X_spin", q[t]) /\ Goto(t, "LXG")
          /\ Keep1 /\ UNCHANGED <<L, W, q, cur, nxt, tl, held, hq>>
LXG(t) == /\ pc[t] = "LXG"                                   \* the call returns: grant
          /\ Granted(t, op[t]) /\ BeginSec(t, op[t], q[t]) /\ Goto(t, "idle")
          /\ NoHB /\ KeepPool /\ UNCHANGED <<L, W, q, cur, nxt, tl, op, nops, exited>>
\* ---- LockS ----
LS1(t) == /\ pc[t] = "LS1"                                   \* qnode->store(0)
          /\ W' = [W EXCEPT ![q[t]] = Zero]
          /\ StoreHB(t, "S_init", q[t]) /\ Goto(t, "LS2")
          /\ Keep1 /\ UNCHANGED <<L, q, cur, nxt, tl, held, hq>>
LS2(t) == /\ pc[t] = "LS2"                                   \* cur = lock_.load()
          /\ cur' = [cur EXCEPT ![t] = L] /\ LoadHB(t, "S_load", 0) /\ Goto(t, "LS3")
          /\ Keep1 /\ UNCHANGED <<L, W, q, nxt, tl, held, hq>>
LS3(t) == /\ pc[t] = "LS3"                                   \* CAS: join the tail group, or become the tail
          /\ IF L = cur[t]
             THEN IF cur[t] # Zero
                  THEN /\ L' = [L EXCEPT !.s = L.s + 1]
                       /\ RmwHB(t, "S_cas", 0) /\ Arrive(t, "S")
                       /\ ResetCache(t, q[t])                 \* the own node goes back to tls_node_
                       /\ tl' = [tl EXCEPT ![t] = cur[t].p]
                       /\ Goto(t, IF cur[t].x \/ cur[t].six THEN "LS5" ELSE "LSG")
                       /\ UNCHANGED <<cur, nalloc>>
                  ELSE /\ L' = Word(FALSE, FALSE, 1, q[t])
                       /\ RmwHB(t, "S_cas", 0) /\ Arrive(t, "S")
                       /\ tl' = [tl EXCEPT ![t] = q[t]]
                       /\ Goto(t, "LSG") /\ KeepPool /\ UNCHANGED cur
             ELSE /\ cur' = [cur EXCEPT ![t] = L] /\ LoadHB(t, "S_casf", 0)
                  /\ NoArr /\ KeepPool /\ UNCHANGED <<L, tl, pc>>
          /\ KeepSec /\ UNCHANGED <<W, q, nxt, held, hq, op, nops, exited>>
LS5(t) == /\ pc[t] = "LS5"                                   \* spin on the lock word
          /\ (L.p # tl[t] \/ (~L.x /\ ~L.six))
          /\ LoadHB(t, "S_spinL", 0)
          /\ Goto(t, IF L.p # tl[t] THEN "LS6" ELSE "LSG")
          /\ Keep1 /\ UNCHANGED <<L, W, q, cur, nxt, tl, held, hq>>
LS6(t) == /\ pc[t] = "LS6"                                   \* wait for the group node's successor link
          /\ W[tl[t]].p # Null
          /\ nxt' = [nxt EXCEPT ![t] = W[tl[t]].p] /\ LoadHB(t, "S_link", tl[t]) /\ Goto(t, "LS7")
          /\ Keep1 /\ UNCHANGED <<L, W, q, cur, tl, held, hq>>
LS7(t) == /\ pc[t] = "LS7"                                   \* spin on the successor's word
          /\ ~W[nxt[t]].x /\ ~W[nxt[t]].six
          /\ LoadHB(t, "S_spinN", nxt[t]) /\ Goto(t, "LSG")
          /\ Keep1 /\ UNCHANGED <<L, W, q, cur, nxt, tl, held, hq>>
LSG(t) == /\ pc[t] = "LSG"
          /\ Granted(t, "S") /\ BeginSec(t, "S", tl[t]) /\ Goto(t, "idle")
          /\ NoHB /\ KeepPool /\ UNCHANGED <<L, W, q, cur, nxt, tl, op, nops, exited>>

-----------------------------------------------------------------------------
\* ---- the three unlock paths share their shape; k \in {"US","USI","UX"} ----
\* UnlockS
US1(t) == /\ pc[t] = "US1"
          /\ nxt' = [nxt EXCEPT ![t] = W[hq[t]].p] /\ LoadHB(t, "US_load", hq[t])
          /\ Goto(t, IF W[hq[t]].p = Null THEN "US2" ELSE "US5")
          /\ Keep1 /\ UNCHANGED <<L, W, q, cur, tl, held, hq>>
US2(t) == /\ pc[t] = "US2"
          /\ cur' = [cur EXCEPT ![t] = L] /\ LoadHB(t, "US_loadL", 0)
          /\ Goto(t, IF L.p = hq[t] THEN "US3" ELSE "US4")
          /\ Keep1 /\ UNCHANGED <<L, W, q, nxt, tl, held, hq>>
US3(t) == /\ pc[t] = "US3"
          /\ IF L = cur[t]
             THEN /\ RmwHB(t, "US_cas", 0)
                  /\ IF cur[t].s > 1 \/ cur[t].six
                     THEN /\ L' = [L EXCEPT !.s = L.s - 1] /\ KeepPool
                     ELSE /\ L' = Zero /\ ResetCache(t, hq[t]) /\ UNCHANGED nalloc
                  /\ Release(t) /\ Goto(t, "idle") /\ UNCHANGED cur
             ELSE /\ cur' = [cur EXCEPT ![t] = L] /\ LoadHB(t, "US_casf", 0)
                  /\ Goto(t, IF L.p = hq[t] THEN "US3" ELSE "US4")
                  /\ KeepPool /\ UNCHANGED <<L, held, hq>>
          /\ NoArr /\ KeepSec /\ UNCHANGED <<W, q, nxt, tl, op, nops, exited>>
US4(t) == /\ pc[t] = "US4" /\ W[hq[t]].p # Null
          /\ nxt' = [nxt EXCEPT ![t] = W[hq[t]].p] /\ LoadHB(t, "US_link", hq[t]) /\ Goto(t, "US5")
          /\ Keep1 /\ UNCHANGED <<L, W, q, cur, tl, held, hq>>
US5(t) == /\ pc[t] = "US5"
          /\ LET prev == W[nxt[t]] IN
             /\ W' = [W EXCEPT ![nxt[t]].s = prev.s - 1]
             /\ IF prev.s = 1 /\ ~prev.x /\ ~prev.six
                THEN ResetCache(t, hq[t]) /\ UNCHANGED nalloc ELSE KeepPool
          /\ RmwHB(t, "US_fsub", nxt[t]) /\ Release(t) /\ Goto(t, "idle")
          /\ NoArr /\ KeepSec /\ UNCHANGED <<L, q, cur, nxt, tl, op, nops, exited>>
\* UnlockSIX
USI1(t) == /\ pc[t] = "USI1" /\ W[hq[t]].s = 0
           /\ nxt' = [nxt EXCEPT ![t] = W[hq[t]].p] /\ LoadHB(t, "USIX_spin", hq[t])
           /\ Goto(t, IF W[hq[t]] = Zero THEN "USI2" ELSE "USI5")
           /\ Keep1 /\ UNCHANGED <<L, W, q, cur, tl, held, hq>>
USI2(t) == /\ pc[t] = "USI2"
           /\ cur' = [cur EXCEPT ![t] = L] /\ LoadHB(t, "USIX_loadL", 0)
           /\ Goto(t, IF L.p = hq[t] THEN "USI3" ELSE "USI4")
           /\ Keep1 /\ UNCHANGED <<L, W, q, nxt, tl, held, hq>>
USI3(t) == /\ pc[t] = "USI3"
           /\ IF L = cur[t]
              THEN /\ RmwHB(t, "USIX_cas", 0)
                   /\ IF cur[t].s > 0
                      THEN /\ L' = [L EXCEPT !.six = ~L.six] /\ KeepPool
                      ELSE /\ L' = Zero /\ ResetCache(t, hq[t]) /\ UNCHANGED nalloc
                   /\ Release(t) /\ Goto(t, "idle") /\ UNCHANGED cur
              ELSE /\ cur' = [cur EXCEPT ![t] = L] /\ LoadHB(t, "USIX_casf", 0)
                   /\ Goto(t, IF L.p = hq[t] THEN "USI3" ELSE "USI4")
                   /\ KeepPool /\ UNCHANGED <<L, held, hq>>
           /\ NoArr /\ KeepSec /\ UNCHANGED <<W, q, nxt, tl, op, nops, exited>>
USI4(t) == /\ pc[t] = "USI4" /\ W[hq[t]].p # Null
           /\ nxt' = [nxt EXCEPT ![t] = W[hq[t]].p] /\ LoadHB(t, "USIX_link", hq[t]) /\ Goto(t, "USI5")
           /\ Keep1 /\ UNCHANGED <<L, W, q, cur, tl, held, hq>>
USI5(t) == /\ pc[t] = "USI5"
           /\ LET prev == W[nxt[t]] IN
              /\ W' = [W EXCEPT ![nxt[t]].six = ~prev.six]
              /\ IF prev.s = 0 THEN ResetCache(t, hq[t]) /\ UNCHANGED nalloc ELSE KeepPool
           /\ RmwHB(t, "USIX_fxor", nxt[t]) /\ Release(t) /\ Goto(t, "idle")
           /\ NoArr /\ KeepSec /\ UNCHANGED <<L, q, cur, nxt, tl, op, nops, exited>>
\* UnlockX
UX1(t) == /\ pc[t] = "UX1"
          /\ nxt' = [nxt EXCEPT ![t] = W[hq[t]].p] /\ LoadHB(t, "UX_load", hq[t])
          /\ Goto(t, IF W[hq[t]] = Zero THEN "UX2" ELSE "UX5")
          /\ Keep1 /\ UNCHANGED <<L, W, q, cur, tl, held, hq>>
UX2(t) == /\ pc[t] = "UX2"
          /\ cur' = [cur EXCEPT ![t] = L] /\ LoadHB(t, "UX_loadL", 0)
          /\ Goto(t, IF L.p = hq[t] THEN "UX3" ELSE "UX4")
          /\ Keep1 /\ UNCHANGED <<L, W, q, nxt, tl, held, hq>>
UX3(t) == /\ pc[t] = "UX3"
          /\ IF L = cur[t]
             THEN /\ RmwHB(t, "UX_cas", 0)
                  /\ IF cur[t].s > 0
                     THEN /\ L' = [L EXCEPT !.x = ~L.x] /\ KeepPool
                     ELSE /\ L' = Zero /\ ResetCache(t, hq[t]) /\ UNCHANGED nalloc
                  /\ Release(t) /\ Goto(t, "idle") /\ UNCHANGED cur
             ELSE /\ cur' = [cur EXCEPT ![t] = L] /\ LoadHB(t, "UX_casf", 0)
                  /\ Goto(t, IF L.p = hq[t] THEN "UX3" ELSE "UX4")
                  /\ KeepPool /\ UNCHANGED <<L, held, hq>>
          /\ NoArr /\ KeepSec /\ UNCHANGED <<W, q, nxt, tl, op, nops, exited>>
UX4(t) == /\ pc[t] = "UX4" /\ W[hq[t]].p # Null
          /\ nxt' = [nxt EXCEPT ![t] = W[hq[t]].p] /\ LoadHB(t, "UX_link", hq[t]) /\ Goto(t, "UX5")
          /\ Keep1 /\ UNCHANGED <<L, W, q, cur, tl, held, hq>>
UX5(t) == /\ pc[t] = "UX5"
          /\ LET prev == W[nxt[t]] IN
             /\ W' = [W EXCEPT ![nxt[t]].x = ~prev.x]
             /\ IF prev.s = 0 THEN ResetCache(t, hq[t]) /\ UNCHANGED nalloc ELSE KeepPool
          /\ RmwHB(t, "UX_fxor", nxt[t]) /\ Release(t) /\ Goto(t, "idle")
          /\ NoArr /\ KeepSec /\ UNCHANGED <<L, q, cur, nxt, tl, op, nops, exited>>

-----------------------------------------------------------------------------
\* ---- UpgradeToX / DowngradeToSIX (the guard keeps its node) ----
Conv(t, m) == /\ held' = [held EXCEPT ![t] = m]
              /\ nsec' = [nsec EXCEPT ![t] = nsec[t] + 1] /\ sid' = [sid EXCEPT ![t] = <<t, nsec[t] + 1>>]
              /\ UNCHANGED <<hq, ended>>
UP1(t) == /\ pc[t] = "UP1" /\ W[hq[t]].s = 0
          /\ nxt' = [nxt EXCEPT ![t] = W[hq[t]].p] /\ LoadHB(t, "UP_spin", hq[t])
          /\ Goto(t, IF W[hq[t]] = Zero THEN "UP2" ELSE "UP5")
          /\ Keep1 /\ UNCHANGED <<L, W, q, cur, tl, held, hq>>
UP2(t) == /\ pc[t] = "UP2"
          /\ cur' = [cur EXCEPT ![t] = L] /\ LoadHB(t, "UP_loadL", 0)
          /\ Goto(t, IF L.p = hq[t] THEN "UP3" ELSE "UP4")
          /\ Keep1 /\ UNCHANGED <<L, W, q, nxt, tl, held, hq>>
UP3(t) == /\ pc[t] = "UP3"
          /\ IF L = cur[t]
             THEN /\ L' = [L EXCEPT !.x = ~L.x, !.six = ~L.six] /\ RmwHB(t, "UP_cas", 0)
                  /\ Conv(t, "X") /\ Goto(t, "idle") /\ UNCHANGED cur
             ELSE /\ cur' = [cur EXCEPT ![t] = L] /\ LoadHB(t, "UP_casf", 0)
                  /\ Goto(t, IF L.p = hq[t] THEN "UP3" ELSE "UP4")
                  /\ KeepSec /\ UNCHANGED <<L, held, hq>>
          /\ NoArr /\ KeepPool /\ UNCHANGED <<W, q, nxt, tl, op, nops, exited>>
UP4(t) == /\ pc[t] = "UP4" /\ W[hq[t]].p # Null
          /\ nxt' = [nxt EXCEPT ![t] = W[hq[t]].p] /\ LoadHB(t, "UP_link", hq[t]) /\ Goto(t, "UP5")
          /\ Keep1 /\ UNCHANGED <<L, W, q, cur, tl, held, hq>>
UP5(t) == /\ pc[t] = "UP5"
          /\ W' = [W EXCEPT ![nxt[t]].x = ~W[nxt[t]].x, ![nxt[t]].six = ~W[nxt[t]].six]
          /\ RmwHB(t, "UP_fxor", nxt[t]) /\ Conv(t, "X") /\ Goto(t, "idle")
          /\ NoArr /\ KeepPool /\ UNCHANGED <<L, q, cur, nxt, tl, op, nops, exited>>
DN1(t) == /\ pc[t] = "DN1"
          /\ nxt' = [nxt EXCEPT ![t] = W[hq[t]].p] /\ LoadHB(t, "DN_load", hq[t])
          /\ Goto(t, IF W[hq[t]].p = Null THEN "DN2" ELSE "DN5")
          /\ Keep1 /\ UNCHANGED <<L, W, q, cur, tl, held, hq>>
DN2(t) == /\ pc[t] = "DN2"
          /\ cur' = [cur EXCEPT ![t] = L] /\ LoadHB(t, "DN_loadL", 0)
          /\ Goto(t, IF L.p = hq[t] THEN "DN3" ELSE "DN4")
          /\ Keep1 /\ UNCHANGED <<L, W, q, nxt, tl, held, hq>>
DN3(t) == /\ pc[t] = "DN3"
          /\ IF L = cur[t]
             THEN /\ L' = [L EXCEPT !.x = ~L.x, !.six = ~L.six] /\ RmwHB(t, "DN_cas", 0)
                  /\ Conv(t, "SIX") /\ Goto(t, "idle") /\ UNCHANGED cur
             ELSE /\ cur' = [cur EXCEPT ![t] = L] /\ LoadHB(t, "DN_casf", 0)
                  /\ Goto(t, IF L.p = hq[t] THEN "DN3" ELSE "DN4")
                  /\ KeepSec /\ UNCHANGED <<L, held, hq>>
          /\ NoArr /\ KeepPool /\ UNCHANGED <<W, q, nxt, tl, op, nops, exited>>
DN4(t) == /\ pc[t] = "DN4" /\ W[hq[t]].p # Null
          /\ nxt' = [nxt EXCEPT ![t] = W[hq[t]].p] /\ LoadHB(t, "DN_link", hq[t]) /\ Goto(t, "DN5")
          /\ Keep1 /\ UNCHANGED <<L, W, q, cur, tl, held, hq>>
DN5(t) == /\ pc[t] = "DN5"
          /\ W' = [W EXCEPT ![nxt[t]].x = ~W[nxt[t]].x, ![nxt[t]].six = ~W[nxt[t]].six]
          /\ RmwHB(t, "DN_fxor", nxt[t]) /\ Conv(t, "SIX") /\ Goto(t, "idle")
          /\ NoArr /\ KeepPool /\ UNCHANGED <<L, q, cur, nxt, tl, op, nops, exited>>

Call(t) == (\E m \in Modes : CallLock(t, m)) \/ CallUnlock(t) \/ CallUpgrade(t) \/ CallDowngrade(t)
OpStep(t) == \/ LX1(t) \/ LX2(t) \/ LX3(t) \/ LX4(t) \/ LX5(t)
             \/ LS1(t) \/ LS2(t) \/ LS3(t) \/ LS5(t) \/ LS6(t) \/ LS7(t)
             \/ US1(t) \/ US2(t) \/ US3(t) \/ US4(t) \/ US5(t)
             \/ USI1(t) \/ USI2(t) \/ USI3(t) \/ USI4(t) \/ USI5(t)
             \/ UX1(t) \/ UX2(t) \/ UX3(t) \/ UX4(t) \/ UX5(t)
             \/ UP1(t) \/ UP2(t) \/ UP3(t) \/ UP4(t) \/ UP5(t)
             \/ DN1(t) \/ DN2(t) \/ DN3(t) \/ DN4(t) \/ DN5(t)
Grant(t) == LXG(t) \/ LSG(t)
Step(t) == Call(t) \/ OpStep(t) \/ Grant(t) \/ Exit(t)
Next == \E t \in Threads : Step(t)
Spec == Init /\ [][Next]_vars
FairSpec == Spec /\ \A t \in Threads : WF_vars(Step(t))

-----------------------------------------------------------------------------
Compat == \A a, b \in Threads : (a # b /\ held[a] \in Modes /\ held[b] \in Modes) => ~Conflict(held[a], held[b])    \* C01, C10
AllDone == \A t \in Threads : t \in exited
NoDeadlock == AllDone \/ ENABLED Next                                                                               \* C02
Termination == <>AllDone
FreeAtEnd == AllDone => (L = Zero /\ \A n \in Nodes : nst[n] = "free")                                              \* C02, C12 (no leak)
Fifo == fifoOK                                                                                                      \* C11
\* C12: the nodes a thread is about to access (by its pc) are active: neither freed nor handed back to a cache
Refs(t) == CASE pc[t] \in {"LX1", "LX3", "LX5", "LS1"} -> {q[t]}
             [] pc[t] = "LX4" -> {cur[t].p}
             [] pc[t] = "LS6" -> {tl[t]}
             [] pc[t] = "LS7" -> {nxt[t]}
             [] pc[t] \in {"US1", "US4", "USI1", "USI4", "UX1", "UX4", "UP1", "UP4", "DN1", "DN4"} -> {hq[t]}
             [] pc[t] \in {"US5", "USI5", "UX5", "UP5", "DN5"} -> {nxt[t]}
             [] OTHER -> {}
NodeSafe == \A t \in Threads : \A n \in Refs(t) : n # Null /\ nst[n] = "active"
GuardNodes == \A t \in Threads : held[t] \in Modes => (hq[t] # Null /\ nst[hq[t]] = "active")
\* live nodes <= running threads + outstanding requests
Outstanding == Cardinality({t \in Threads : held[t] \in Modes \/ (op[t] \in Modes /\ pc[t] # "idle")})
LiveBound == Cardinality({n \in Nodes : nst[n] # "free"}) <= Cardinality(Threads \ exited) + Outstanding
\* C08
HB == WithHB => \A t \in Threads : (held[t] \in Modes /\ pc[t] = "idle") =>
        \A e \in ended : (e.tok[1] # t /\ Conflict(e.m, held[t])) => e.tok \in C[t]
=============================================================================
