---------------------------- MODULE McsImplTrace ----------------------------
(***************************************************************************)
(* Binding B1 + B4 for MCSLock (see PessImplTrace).  Besides the word      *)
(* values, the location of every operation (lock word or which queue       *)
(* node), the node allocated by a call (n) and the node freed by an        *)
(* operation or at thread exit (fr) must be what McsImpl does, so the node *)
(* pool of the specification is bound to the allocator of the real run.    *)
(***************************************************************************)
EXTENDS McsImpl, Json, IOUtils

VARIABLES l, mo
Tr == ndJsonDeserialize(IOEnv.TRACE)
tvars == <<vars, l, mo>>
Ev == Tr[l]
IsEv(k) == l <= Len(Tr) /\ Tr[l].e = k
Adv == l' = l + 1

SiteOf(p) == CASE p = "LX1" -> "X_init" [] p = "LX2" -> "X_xchg" [] p = "LX3" -> "X_flags" [] p = "LX4" -> "X_link" [] p = "LX5" -> "X_spin"
               [] p = "LS1" -> "S_init" [] p = "LS2" -> "S_load" [] p = "LS3" -> "S_cas" [] p = "LS5" -> "S_spinL"
               [] p = "LS6" -> "S_link" [] p = "LS7" -> "S_spinN"
               [] p = "US1" -> "US_load" [] p = "US2" -> "US_loadL" [] p = "US3" -> "US_cas" [] p = "US4" -> "US_link" [] p = "US5" -> "US_fsub"
               [] p = "USI1" -> "USIX_spin" [] p = "USI2" -> "USIX_loadL" [] p = "USI3" -> "USIX_cas" [] p = "USI4" -> "USIX_link" [] p = "USI5" -> "USIX_fxor"
               [] p = "UX1" -> "UX_load" [] p = "UX2" -> "UX_loadL" [] p = "UX3" -> "UX_cas" [] p = "UX4" -> "UX_link" [] p = "UX5" -> "UX_fxor"
               [] p = "UP1" -> "UP_spin" [] p = "UP2" -> "UP_loadL" [] p = "UP3" -> "UP_cas" [] p = "UP4" -> "UP_link" [] p = "UP5" -> "UP_fxor"
               [] p = "DN1" -> "DN_load" [] p = "DN2" -> "DN_loadL" [] p = "DN3" -> "DN_cas" [] p = "DN4" -> "DN_link" [] p = "DN5" -> "DN_fxor"
               [] OTHER -> "none"
CasSites == {"S_cas", "US_cas", "USIX_cas", "UX_cas", "UP_cas", "DN_cas"}
LoadSites == {"S_load", "S_spinL", "S_link", "S_spinN", "X_spin", "US_load", "US_loadL", "US_link", "USIX_spin", "USIX_loadL", "USIX_link",
              "UX_load", "UX_loadL", "UX_link", "UP_spin", "UP_loadL", "UP_link", "DN_load", "DN_loadL", "DN_link"}
KindOK(site, k) == CASE site \in LoadSites -> k = "load"
                     [] site \in CasSites -> k \in {"cas", "casf"}
                     [] site \in {"S_init", "X_init"} -> k = "store"
                     [] site = "X_xchg" -> k = "xchg"
                     [] site = "X_flags" -> k \in {"fxor", "fadd", "fsub"}
                     [] site = "X_link" -> k \in {"fadd", "fxor"}
                     [] site = "US_fsub" -> k \in {"fsub", "fadd"}
                     [] site \in {"USIX_fxor", "UX_fxor", "UP_fxor", "DN_fxor"} -> k = "fxor"
                     [] OTHER -> FALSE
\* the location the operation at label p of thread t touches: 0 = lock word, n = node n
LocOf(t) == LET p == pc[t] IN
            CASE p \in {"LX1", "LX3", "LX5", "LS1"} -> q[t]
              [] p = "LX4" -> cur[t].p
              [] p = "LS6" -> tl[t]
              [] p \in {"LS7", "US5", "USI5", "UX5", "UP5", "DN5"} -> nxt[t]
              [] p \in {"US1", "US4", "USI1", "USI4", "UX1", "UX4", "UP1", "UP4", "DN1", "DN4"} -> hq[t]
              [] OTHER -> 0
EvWord == [x |-> Ev.x = 1, six |-> Ev.six = 1, s |-> Ev.s, p |-> Ev.p]
Learn(site) == LET key == IF Ev.k = "casf" THEN site \o "f" ELSE site IN
               /\ mo[key] \in {"?", Ev.mo}
               /\ mo' = [mo EXCEPT ![key] = Ev.mo]
Freed == {n \in Nodes : nst[n] # "free" /\ nst'[n] = "free"}
FreedOK(fr) == Freed = (IF fr = 0 THEN {} ELSE {fr})

TInit == Init /\ l = 1 /\ mo = [s \in Sites |-> "?"] /\ TLCSet(1, 1) /\ TLCSet(2, <<>>)

TCall == /\ IsEv("call")
         /\ CASE Ev.op = "LockS" -> CallLock(Ev.t, "S") [] Ev.op = "LockSIX" -> CallLock(Ev.t, "SIX")
              [] Ev.op = "LockX" -> CallLock(Ev.t, "X") [] Ev.op = "Unlock" -> CallUnlock(Ev.t)
              [] Ev.op = "Upgrade" -> CallUpgrade(Ev.t) [] Ev.op = "Downgrade" -> CallDowngrade(Ev.t)
              [] OTHER -> FALSE
         /\ (Ev.op \in {"LockS", "LockSIX", "LockX"}) =>
               IF Ev.n = 0 THEN cache[Ev.t] # Null ELSE (cache[Ev.t] = Null /\ q'[Ev.t] = Ev.n)
         /\ Adv /\ UNCHANGED mo
TOp == /\ IsEv("op")
       /\ LET site == SiteOf(pc[Ev.t]) IN
          \/ /\ KindOK(site, Ev.k)
             /\ LocOf(Ev.t) = Ev.loc
             /\ OpStep(Ev.t)
             /\ IF Ev.loc = 0 THEN L' = EvWord ELSE W'[Ev.loc] = EvWord
             /\ (site \in CasSites) => ((Ev.k = "casf") = (L' = L))
             /\ FreedOK(Ev.fr)
             /\ Learn(site)
          \/ /\ Ev.k = "load" /\ site \in LoadSites          \* failing spin iteration
             /\ LocOf(Ev.t) = Ev.loc
             /\ (IF Ev.loc = 0 THEN L ELSE W[Ev.loc]) = EvWord
             /\ Ev.fr = 0
             /\ Learn(site)
             /\ UNCHANGED vars
       /\ Adv
TRet == /\ IsEv("ret")
        /\ IF Ev.op \in {"LockS", "LockSIX", "LockX"}
           THEN Grant(Ev.t)
           ELSE pc[Ev.t] = "idle" /\ UNCHANGED vars
        /\ Adv /\ UNCHANGED mo
TExit == /\ IsEv("texit") /\ ExitBody(Ev.t) /\ FreedOK(Ev.fr) /\ Adv /\ UNCHANGED mo
TReset == /\ IsEv("reset")
          /\ L' = Zero /\ W' = [n \in Nodes |-> Zero]
          /\ nst' = [n \in Nodes |-> "free"] /\ cache' = [t \in Threads |-> Null] /\ nalloc' = 0
          /\ pc' = [t \in Threads |-> "idle"] /\ op' = [t \in Threads |-> "-"]
          /\ q' = [t \in Threads |-> Null] /\ cur' = [t \in Threads |-> Zero]
          /\ nxt' = [t \in Threads |-> Null] /\ tl' = [t \in Threads |-> Null]
          /\ held' = [t \in Threads |-> "none"] /\ hq' = [t \in Threads |-> Null]
          /\ nops' = [t \in Threads |-> 0] /\ exited' = {}
          /\ arr' = <<>> /\ fifoOK' = TRUE
          /\ sid' = [t \in Threads |-> <<0, 0>>] /\ nsec' = [t \in Threads |-> 0] /\ ended' = {}
          /\ C' = [t \in Threads |-> {}] /\ relL' = {} /\ relW' = [n \in Nodes |-> {}]
          /\ Adv /\ UNCHANGED mo
TNext == TCall \/ TOp \/ TRet \/ TExit \/ TReset
TSpec == TInit /\ [][TNext]_tvars

Progress == IF l > TLCGet(1) THEN TLCSet(1, l) /\ TLCSet(2, mo) ELSE TRUE
Accepted == /\ PrintT(<<"MAXL", TLCGet(1), "LEN", Len(Tr)>>)
            /\ PrintT(<<"MO", TLCGet(2)>>)
            /\ TLCGet(1) = Len(Tr) + 1
MOdummy == [s \in Sites |-> "sc"]
AllModes == [t \in Threads |-> Modes]
=============================================================================
