------------------------------ MODULE NodeTrace ------------------------------
(***************************************************************************)
(* C12: life cycle of MCS queue nodes, checked on the allocation / free /  *)
(* access stream of real executions (global operator new/delete replaced   *)
(* in the harness, freed nodes quarantined so that a late access is        *)
(* observable instead of undefined).                                       *)
(*   - every atomic access hits a node that is alive           (Acc)       *)
(*   - a node is freed at most once                            (Free)      *)
(*   - live nodes <= running threads + outstanding requests    (Alloc)     *)
(*   - nothing is alive once every thread has exited           (Final)     *)
(***************************************************************************)
EXTENDS Naturals, Sequences, FiniteSets, TLC, Json, IOUtils

CONSTANTS Threads

Tr == ndJsonDeserialize(IOEnv.TRACE)

VARIABLES l, alive, running, outst
vars == <<l, alive, running, outst>>

Init == l = 1 /\ alive = {} /\ running = {} /\ outst = 0 /\ TLCSet(1, 1)
Ev == Tr[l]
IsEv(k) == l <= Len(Tr) /\ Tr[l].e = k
Adv == l' = l + 1

TStart == IsEv("tstart") /\ running' = running \cup {Ev.t} /\ Adv /\ UNCHANGED <<alive, outst>>
TExit  == IsEv("texit") /\ running' = running \ {Ev.t} /\ Adv /\ UNCHANGED <<alive, outst>>
ReqB   == IsEv("reqb") /\ outst' = outst + 1 /\ Adv /\ UNCHANGED <<alive, running>>
ReqE   == IsEv("reqe") /\ outst > 0 /\ outst' = outst - 1 /\ Adv /\ UNCHANGED <<alive, running>>
Alloc  == /\ IsEv("alloc") /\ Ev.n \notin alive
          /\ alive' = alive \cup {Ev.n}
          /\ Cardinality(alive') <= Cardinality(running) + outst      \* the live-node bound
          /\ Adv /\ UNCHANGED <<running, outst>>
Free   == /\ IsEv("free") /\ Ev.n \in alive                            \* never freed twice
          /\ alive' = alive \ {Ev.n}
          /\ Adv /\ UNCHANGED <<running, outst>>
Acc    == /\ IsEv("acc") /\ Ev.n \in alive                             \* never touched after free
          /\ Adv /\ UNCHANGED <<alive, running, outst>>
Final  == /\ IsEv("final") /\ running = {} /\ alive = {}               \* nothing leaked
          /\ Adv /\ UNCHANGED <<alive, running, outst>>
Reset  == IsEv("reset") /\ alive' = {} /\ running' = {} /\ outst' = 0 /\ Adv

Next == TStart \/ TExit \/ ReqB \/ ReqE \/ Alloc \/ Free \/ Acc \/ Final \/ Reset
Spec == Init /\ [][Next]_vars
Progress == IF l > TLCGet(1) THEN TLCSet(1, l) ELSE TRUE
Accepted == /\ PrintT(<<"MAXL", TLCGet(1), "LEN", Len(Tr)>>)
            /\ TLCGet(1) = Len(Tr) + 1
=============================================================================
