------------------------------ MODULE OptImpl ------------------------------
(***************************************************************************)
(* Level 2: OptimisticLock as implemented (src/lock/optimistic_lock.cpp),  *)
(* one action per atomic operation.  Word = [x, six, s, v]; the version v  *)
(* is a pair <<hi, lo>> with hi < VHi, lo < VLo (2^16 each when real       *)
(* traces are validated, tiny when model checking so that wrap-around and  *)
(* republished values are explored).                                       *)
(* Per thread: held (mode or "none"), og (version carried by its           *)
(* optimistic / composite guard, or NoV), oldv/newv of its exclusive       *)
(* guard, comp (the shared grant is held through a composite guard).       *)
(* Spin loops are awaits.  Programs are nondeterministic (MaxOps calls).   *)
(* HB ghost and MO table as in PessImpl.                                   *)
(***************************************************************************)
EXTENDS Integers, Sequences, FiniteSets, TLC

CONSTANTS Threads, MaxOps, MO, WithHB, VHi, VLo, Retry, SetVers, WithOpt

VARIABLES w, pc, cur, held, nops, sid, nsec, ended, C, rel,
          og, oldv, newv, comp, att, res, pub
vars == <<w, pc, cur, held, nops, sid, nsec, ended, C, rel, og, oldv, newv, comp, att, res, pub>>

Sites == {"Lock_load", "Lock_cas", "Lock_casf", "UnlockS_fsub", "UnlockSIX_fxor", "UnlockX_store",
          "Upgrade_load", "Upgrade_cas", "Upgrade_casf", "Downgrade_store",
          "GetVersion_load", "Verify_fence", "Verify_load", "TryLock_load", "TryLock_cas", "TryLock_casf",
          "Prepare_load1", "Prepare_load2", "Prepare_cas", "Prepare_casf"}
V0 == <<0, 0>>
NoV == <<-1, -1>>
VInc(v) == IF v[2] = VLo - 1 THEN <<(v[1] + 1) % VHi, 0>> ELSE <<v[1], v[2] + 1>>
Vers == (0..(VHi - 1)) \X (0..(VLo - 1))
Word(x, six, s, v) == [x |-> x, six |-> six, s |-> s, v |-> v]
Modes == {"S", "SIX", "X"}
Conflict(a, b) == (a = "X") \/ (b = "X") \/ (a = "SIX" /\ b = "SIX")
NoLock(c) == ~c.x /\ ~c.six /\ c.s = 0
IsAcq(m) == m \in {"acq", "acqrel", "sc"}
IsRel(m) == m \in {"rel", "acqrel", "sc"}

Init == /\ w = Word(FALSE, FALSE, 0, V0)
        /\ pc = [t \in Threads |-> "idle"]
        /\ cur = [t \in Threads |-> Word(FALSE, FALSE, 0, V0)]
        /\ held = [t \in Threads |-> "none"]
        /\ nops = [t \in Threads |-> 0]
        /\ sid = [t \in Threads |-> <<0, 0>>]
        /\ nsec = [t \in Threads |-> 0]
        /\ ended = {}
        /\ C = [t \in Threads |-> {}]
        /\ rel = {}
        /\ og = [t \in Threads |-> NoV]
        /\ oldv = [t \in Threads |-> V0]
        /\ newv = [t \in Threads |-> V0]
        /\ comp = [t \in Threads |-> FALSE]
        /\ att = [t \in Threads |-> 0]
        /\ res = [t \in Threads |-> "-"]
        /\ pub = V0            \* ghost: the version published by the last exclusive section (C09)

-----------------------------------------------------------------------------
LoadHB(t, site)  == IF WithHB /\ IsAcq(MO[site]) THEN C' = [C EXCEPT ![t] = C[t] \cup rel] ELSE UNCHANGED C
RmwHB(t, site)   == IF WithHB
                    THEN LET c1 == IF IsAcq(MO[site]) THEN C[t] \cup rel ELSE C[t] IN
                         /\ C' = [C EXCEPT ![t] = c1]
                         /\ rel' = IF IsRel(MO[site]) THEN rel \cup c1 ELSE rel
                    ELSE UNCHANGED <<C, rel>>
StoreHB(t, site) == IF WithHB THEN (rel' = IF IsRel(MO[site]) THEN C[t] ELSE {}) /\ UNCHANGED C
                    ELSE UNCHANGED <<C, rel>>
BeginSec(t, m) == /\ held' = [held EXCEPT ![t] = m]
                  /\ nsec' = [nsec EXCEPT ![t] = nsec[t] + 1]
                  /\ sid' = [sid EXCEPT ![t] = <<t, nsec[t] + 1>>]
EndSec(t) == /\ ended' = IF WithHB THEN ended \cup {[tok |-> sid[t], m |-> held[t]]} ELSE ended
             /\ C' = IF WithHB THEN [C EXCEPT ![t] = C[t] \cup {sid[t]}] ELSE C
Goto(t, l) == pc' = [pc EXCEPT ![t] = l]
Count(t) == nops' = [nops EXCEPT ![t] = nops[t] + 1]
XG(t, v) == /\ oldv' = [oldv EXCEPT ![t] = v] /\ newv' = [newv EXCEPT ![t] = VInc(v)]
KeepX == UNCHANGED <<oldv, newv>>
KeepO == UNCHANGED <<og, res, att, comp>>
KeepG == UNCHANGED pub
KeepS == UNCHANGED <<sid, nsec, ended>>

-----------------------------------------------------------------------------
\* ---- calls ----
CallLock(t, m) == /\ pc[t] = "idle" /\ held[t] = "none" /\ nops[t] < MaxOps
                  /\ Goto(t, "L_" \o m) /\ Count(t)
                  /\ UNCHANGED <<w, cur, held, C, rel>> /\ KeepS /\ KeepX /\ KeepO /\ KeepG
CallUnlock(t) == /\ pc[t] = "idle" /\ held[t] \in Modes
                 /\ EndSec(t) /\ Goto(t, "U_" \o held[t])
                 /\ UNCHANGED <<w, cur, held, nops, sid, nsec, rel>> /\ KeepX /\ KeepO /\ KeepG
CallUpgrade(t) == /\ pc[t] = "idle" /\ held[t] = "SIX" /\ nops[t] < MaxOps
                  /\ EndSec(t) /\ Goto(t, "UP_load") /\ Count(t)
                  /\ UNCHANGED <<w, cur, held, sid, nsec, rel>> /\ KeepX /\ KeepO /\ KeepG
CallDowngrade(t) == /\ pc[t] = "idle" /\ held[t] = "X" /\ nops[t] < MaxOps
                    /\ EndSec(t) /\ Goto(t, "DN_store") /\ Count(t)
                    /\ UNCHANGED <<w, cur, held, sid, nsec, rel>> /\ KeepX /\ KeepO /\ KeepG
\* SetVersion has no atomic operation
SetVersion(t, v) == /\ pc[t] = "idle" /\ held[t] = "X"
                    /\ newv' = [newv EXCEPT ![t] = v]
                    /\ UNCHANGED <<w, pc, cur, held, nops, C, rel, oldv>> /\ KeepS /\ KeepO /\ KeepG
\* (once per section when model checking)
CallSetVersion(t, v) == newv[t] = VInc(oldv[t]) /\ SetVersion(t, v)
CallGetVersion(t) == /\ WithOpt /\ pc[t] = "idle" /\ held[t] = "none" /\ nops[t] < MaxOps
                     /\ Goto(t, "GV_load") /\ Count(t)
                     /\ UNCHANGED <<w, cur, held, C, rel>> /\ KeepS /\ KeepX /\ KeepO /\ KeepG
CallVerify(t) == /\ WithOpt /\ pc[t] = "idle" /\ held[t] = "none" /\ og[t] # NoV /\ nops[t] < MaxOps
                 /\ Goto(t, "V_fence") /\ Count(t)
                 /\ UNCHANGED <<w, cur, held, C, rel>> /\ KeepS /\ KeepX /\ KeepO /\ KeepG
\* VerifyVersion of a composite guard that holds the shared grant: no operation at all
CallCVerify(t) == /\ WithOpt /\ pc[t] = "idle" /\ held[t] = "S" /\ comp[t] /\ nops[t] < MaxOps
                  /\ res' = [res EXCEPT ![t] = "T"] /\ Goto(t, "ret") /\ Count(t)
                  /\ UNCHANGED <<w, cur, held, C, rel, og, att, comp>> /\ KeepS /\ KeepX /\ KeepG
CallTryLock(t, m) == /\ WithOpt /\ pc[t] = "idle" /\ held[t] = "none" /\ og[t] # NoV /\ nops[t] < MaxOps
                     /\ Goto(t, "T_" \o m) /\ Count(t)
                     /\ UNCHANGED <<w, cur, held, C, rel>> /\ KeepS /\ KeepX /\ KeepO /\ KeepG
CallPrepare(t) == /\ WithOpt /\ pc[t] = "idle" /\ held[t] = "none" /\ nops[t] < MaxOps
                  /\ att' = [att EXCEPT ![t] = 0] /\ Goto(t, "P1") /\ Count(t)
                  /\ UNCHANGED <<w, cur, held, C, rel, og, res, comp>> /\ KeepS /\ KeepX /\ KeepG

\* ---- LockS / LockSIX / LockX ----
Admit(m, c) == CASE m = "S" -> ~c.x [] m = "SIX" -> ~c.x /\ ~c.six [] OTHER -> NoLock(c)
Add(m, c) == CASE m = "S" -> [c EXCEPT !.s = c.s + 1] [] m = "SIX" -> [c EXCEPT !.six = TRUE] [] OTHER -> [c EXCEPT !.x = TRUE]
LLoad(t, m) == /\ pc[t] = "L_" \o m /\ Admit(m, w)
               /\ cur' = [cur EXCEPT ![t] = w]
               /\ LoadHB(t, "Lock_load") /\ Goto(t, "C_" \o m)
               /\ UNCHANGED <<w, held, nops, rel>> /\ KeepS /\ KeepX /\ KeepO /\ KeepG
LCas(t, m) == /\ pc[t] = "C_" \o m
              /\ IF w = cur[t]
                 THEN /\ w' = Add(m, w) /\ RmwHB(t, "Lock_cas")
                      /\ BeginSec(t, m) /\ Goto(t, "ret")
                      /\ (IF m = "X" THEN XG(t, w.v) ELSE KeepX)
                      /\ UNCHANGED <<cur, nops, ended>>
                 ELSE /\ Goto(t, "L_" \o m) /\ LoadHB(t, "Lock_casf")
                      /\ UNCHANGED <<w, cur, held, nops, rel>> /\ KeepS /\ KeepX
              /\ KeepO /\ KeepG
\* ---- unlock ----
USub(t) == /\ pc[t] = "U_S"
           /\ w' = [w EXCEPT !.s = w.s - 1] /\ RmwHB(t, "UnlockS_fsub")
           /\ held' = [held EXCEPT ![t] = "none"] /\ comp' = [comp EXCEPT ![t] = FALSE] /\ Goto(t, "ret")
           /\ UNCHANGED <<cur, nops, og, res, att>> /\ KeepS /\ KeepX /\ KeepG
UXor(t) == /\ pc[t] = "U_SIX"
           /\ w' = [w EXCEPT !.six = ~w.six] /\ RmwHB(t, "UnlockSIX_fxor")
           /\ held' = [held EXCEPT ![t] = "none"] /\ Goto(t, "ret")
           /\ UNCHANGED <<cur, nops>> /\ KeepS /\ KeepX /\ KeepO /\ KeepG
UStore(t) == /\ pc[t] = "U_X"
             /\ w' = Word(FALSE, FALSE, 0, newv[t]) /\ StoreHB(t, "UnlockX_store")      \* store(new_ver_): the whole word
             /\ held' = [held EXCEPT ![t] = "none"] /\ Goto(t, "ret")
             /\ pub' = newv[t]
             /\ UNCHANGED <<cur, nops>> /\ KeepS /\ KeepX /\ KeepO
\* ---- UpgradeToX: await no shared holder, CAS flips SIX and X ----
UpLoad(t) == /\ pc[t] = "UP_load" /\ w.s = 0
             /\ cur' = [cur EXCEPT ![t] = w] /\ LoadHB(t, "Upgrade_load") /\ Goto(t, "UP_cas")
             /\ UNCHANGED <<w, held, nops, rel>> /\ KeepS /\ KeepX /\ KeepO /\ KeepG
UpCas(t) == /\ pc[t] = "UP_cas"
            /\ IF w = cur[t]
               THEN /\ w' = [w EXCEPT !.x = ~w.x, !.six = ~w.six] /\ RmwHB(t, "Upgrade_cas")
                    /\ BeginSec(t, "X") /\ XG(t, w.v) /\ Goto(t, "ret")
                    /\ UNCHANGED <<cur, nops, ended>>
               ELSE /\ Goto(t, "UP_load") /\ LoadHB(t, "Upgrade_casf")
                    /\ UNCHANGED <<w, cur, held, nops, rel>> /\ KeepS /\ KeepX
            /\ KeepO /\ KeepG
DnStore(t) == /\ pc[t] = "DN_store"
              /\ w' = Word(FALSE, TRUE, 0, newv[t]) /\ StoreHB(t, "Downgrade_store")
              /\ BeginSec(t, "SIX") /\ Goto(t, "ret")
              /\ pub' = newv[t]
              /\ UNCHANGED <<cur, nops, ended>> /\ KeepX /\ KeepO
\* ---- GetVersion: await no exclusive holder ----
GVLoad(t) == /\ pc[t] = "GV_load" /\ ~w.x
             /\ og' = [og EXCEPT ![t] = w.v]
             /\ LoadHB(t, "GetVersion_load") /\ Goto(t, "ret")
             /\ UNCHANGED <<w, cur, held, nops, rel, res, att, comp>> /\ KeepS /\ KeepX /\ KeepG
\* ---- VerifyVersion: fence, load (await no exclusive holder), compare ----
VFence(t) == /\ pc[t] = "V_fence" /\ Goto(t, "V_load")
             /\ UNCHANGED <<w, cur, held, nops, C, rel>> /\ KeepS /\ KeepX /\ KeepO /\ KeepG
VLoad(t) == /\ pc[t] = "V_load" /\ ~w.x
            /\ res' = [res EXCEPT ![t] = IF og[t] = w.v THEN "T" ELSE "F"]
            /\ og' = [og EXCEPT ![t] = w.v]
            /\ LoadHB(t, "Verify_load") /\ Goto(t, "ret")
            /\ UNCHANGED <<w, cur, held, nops, rel, att, comp>> /\ KeepS /\ KeepX /\ KeepG
\* ---- TryLock*: load (await admissible), fail if the version moved, else CAS ----
TLoad(t, m) == /\ pc[t] = "T_" \o m /\ Admit(m, w)
               /\ cur' = [cur EXCEPT ![t] = w] /\ LoadHB(t, "TryLock_load")
               /\ IF w.v # og[t]
                  THEN /\ og' = [og EXCEPT ![t] = w.v]
                       /\ res' = [res EXCEPT ![t] = "F"] /\ Goto(t, "ret")
                       /\ UNCHANGED <<att, comp>>
                  ELSE /\ Goto(t, "TC_" \o m) /\ KeepO
               /\ UNCHANGED <<w, held, nops, rel>> /\ KeepS /\ KeepX /\ KeepG
TCas(t, m) == /\ pc[t] = "TC_" \o m
              /\ IF w = cur[t]
                 THEN /\ w' = Add(m, w) /\ RmwHB(t, "TryLock_cas")
                      /\ BeginSec(t, m) /\ Goto(t, "ret")
                      /\ res' = [res EXCEPT ![t] = "T"]
                      /\ (IF m = "X" THEN XG(t, w.v) ELSE KeepX)
                      /\ UNCHANGED <<cur, nops, ended, og, att, comp>>
                 ELSE /\ Goto(t, "T_" \o m) /\ LoadHB(t, "TryLock_casf")
                      /\ UNCHANGED <<w, cur, held, nops, rel>> /\ KeepS /\ KeepX /\ KeepO
              /\ KeepG
\* ---- PrepareRead: Retry+1 optimistic attempts, then version-or-shared-lock ----
P1(t) == /\ pc[t] = "P1"
         /\ LoadHB(t, "Prepare_load1")
         /\ IF ~w.x
            THEN /\ og' = [og EXCEPT ![t] = w.v] /\ Goto(t, "ret")
                 /\ UNCHANGED att
            ELSE /\ att' = [att EXCEPT ![t] = att[t] + 1]
                 /\ Goto(t, IF att[t] >= Retry THEN "P2" ELSE "P1")
                 /\ UNCHANGED og
         /\ UNCHANGED <<w, cur, held, nops, rel, res, comp>> /\ KeepS /\ KeepX /\ KeepG
P2(t) == /\ pc[t] = "P2" /\ ~w.x
         /\ cur' = [cur EXCEPT ![t] = w] /\ LoadHB(t, "Prepare_load2")
         /\ IF ~NoLock(w)
            THEN /\ og' = [og EXCEPT ![t] = w.v] /\ Goto(t, "ret")
            ELSE /\ Goto(t, "PC") /\ UNCHANGED og
         /\ UNCHANGED <<w, held, nops, rel, res, att, comp>> /\ KeepS /\ KeepX /\ KeepG
PCas(t) == /\ pc[t] = "PC"
           /\ IF w = cur[t]
              THEN /\ w' = Add("S", w) /\ RmwHB(t, "Prepare_cas")
                   /\ BeginSec(t, "S") /\ comp' = [comp EXCEPT ![t] = TRUE] /\ Goto(t, "ret")
                   /\ UNCHANGED <<cur, nops, ended, og, res, att>>
              ELSE /\ Goto(t, "P2") /\ LoadHB(t, "Prepare_casf")
                   /\ UNCHANGED <<w, cur, held, nops, rel>> /\ KeepS /\ KeepO
           /\ KeepX /\ KeepG
Ret(t) == /\ pc[t] = "ret" /\ Goto(t, "idle")
          /\ UNCHANGED <<w, cur, held, nops, C, rel>> /\ KeepS /\ KeepX /\ KeepO /\ KeepG

Call(t) == \/ \E m \in Modes : CallLock(t, m) \/ CallTryLock(t, m)
           \/ CallUnlock(t) \/ CallUpgrade(t) \/ CallDowngrade(t)
           \/ CallGetVersion(t) \/ CallVerify(t) \/ CallCVerify(t) \/ CallPrepare(t)
           \/ \E v \in SetVers : CallSetVersion(t, v)
OpStep(t) == \/ \E m \in Modes : LLoad(t, m) \/ LCas(t, m) \/ TLoad(t, m) \/ TCas(t, m)
             \/ USub(t) \/ UXor(t) \/ UStore(t) \/ UpLoad(t) \/ UpCas(t) \/ DnStore(t)
             \/ GVLoad(t) \/ VFence(t) \/ VLoad(t) \/ P1(t) \/ P2(t) \/ PCas(t)
Step(t) == Call(t) \/ OpStep(t) \/ Ret(t)
Next == \E t \in Threads : Step(t)
Spec == Init /\ [][Next]_vars
FairSpec == Spec /\ \A t \in Threads : WF_vars(Step(t))

-----------------------------------------------------------------------------
Compat == \A a, b \in Threads : (a # b /\ held[a] \in Modes /\ held[b] \in Modes) => ~Conflict(held[a], held[b])       \* C01, C10
WordOK == /\ w.s = Cardinality({t \in Threads : held[t] = "S"})
          /\ w.six = (\E t \in Threads : held[t] = "SIX")
          /\ w.x = (\E t \in Threads : held[t] = "X")
AllDone == \A t \in Threads : pc[t] = "idle" /\ held[t] = "none" /\ nops[t] >= MaxOps
NoDeadlock == AllDone \/ ENABLED Next                                                                                  \* C02
FreeAtEnd == AllDone => NoLock(w)
Termination == <>AllDone
\* C09: the word always carries the version published by the last exclusive section; an exclusive guard remembers
\* the version that was current when its grant began
VerOK == /\ w.v = pub
         /\ \A t \in Threads : held[t] = "X" => oldv[t] = w.v
\* C03 / C13: a version check succeeds only at an instant at which no exclusive holder is active and the version the
\* guard carries is the lock's version; a version is handed out only while no exclusive holder is active
CheckSteps == {"V_load", "TC_S", "TC_SIX", "TC_X"}
OptSound == [][\A t \in Threads : (pc[t] \in CheckSteps /\ pc'[t] = "ret" /\ res'[t] = "T") => (og[t] = w.v /\ ~w.x)]_vars
OptComplete == [][\A t \in Threads : (pc[t] \in {"V_load", "T_S", "T_SIX", "T_X"} /\ pc'[t] = "ret" /\ res'[t] = "F")
                                      => (og[t] # w.v /\ og'[t] = w.v /\ ~w.x)]_vars
SampleOK == [][\A t \in Threads : (og'[t] # og[t]) => ~w.x]_vars
\* C13: the composite guard's shared grant is taken only from a completely free word
PrepareOK == [][\A t \in Threads : (comp'[t] /\ ~comp[t]) => NoLock(w)]_vars
HB == WithHB => \A t \in Threads : held[t] \in Modes =>
        \A e \in ended : (e.tok[1] # t /\ Conflict(e.m, held[t])) => e.tok \in C[t]
=============================================================================
