---------------------------- MODULE OptImplTrace ----------------------------
(***************************************************************************)
(* Binding B1 + B4 for OptimisticLock (see PessImplTrace): every call,     *)
(* atomic operation and return of a real execution is the OptImpl action   *)
(* enabled at that thread's pc, with the same word value afterwards and    *)
(* the same results; failing spin iterations are stutters that read the    *)
(* current word.  Learns MO.                                               *)
(***************************************************************************)
EXTENDS OptImpl, Json, IOUtils

VARIABLES l, mo
Tr == ndJsonDeserialize(IOEnv.TRACE)
tvars == <<vars, l, mo>>
Ev == Tr[l]
IsEv(k) == l <= Len(Tr) /\ Tr[l].e = k
Adv == l' = l + 1

SiteOf(p) == CASE p \in {"L_S", "L_SIX", "L_X"} -> "Lock_load" [] p \in {"C_S", "C_SIX", "C_X"} -> "Lock_cas"
               [] p = "U_S" -> "UnlockS_fsub" [] p = "U_SIX" -> "UnlockSIX_fxor" [] p = "U_X" -> "UnlockX_store"
               [] p = "UP_load" -> "Upgrade_load" [] p = "UP_cas" -> "Upgrade_cas" [] p = "DN_store" -> "Downgrade_store"
               [] p = "GV_load" -> "GetVersion_load" [] p = "V_fence" -> "Verify_fence" [] p = "V_load" -> "Verify_load"
               [] p \in {"T_S", "T_SIX", "T_X"} -> "TryLock_load" [] p \in {"TC_S", "TC_SIX", "TC_X"} -> "TryLock_cas"
               [] p = "P1" -> "Prepare_load1" [] p = "P2" -> "Prepare_load2" [] p = "PC" -> "Prepare_cas"
               [] OTHER -> "none"
LoadSites == {"Lock_load", "Upgrade_load", "GetVersion_load", "Verify_load", "TryLock_load", "Prepare_load1", "Prepare_load2"}
CasSites == {"Lock_cas", "Upgrade_cas", "TryLock_cas", "Prepare_cas"}
KindOK(site, k) == CASE site \in LoadSites -> k = "load"
                     [] site \in CasSites -> k \in {"cas", "casf"}
                     [] site = "UnlockS_fsub" -> k \in {"fsub", "fadd"}
                     [] site = "UnlockSIX_fxor" -> k = "fxor"
                     [] site \in {"UnlockX_store", "Downgrade_store"} -> k \in {"store", "xchg"}
                     [] site = "Verify_fence" -> k = "fence"
                     [] OTHER -> FALSE
EvWord == [x |-> Ev.x = 1, six |-> Ev.six = 1, s |-> Ev.s, v |-> <<Ev.vh, Ev.vl>>]
BackLabels == {"L_S", "L_SIX", "L_X", "UP_load", "T_S", "T_SIX", "T_X", "P2"}
Learn(site) == LET key == IF Ev.k = "casf" THEN site \o "f" ELSE site IN
               /\ mo[key] \in {"?", Ev.mo}
               /\ mo' = [mo EXCEPT ![key] = Ev.mo]

TInit == Init /\ l = 1 /\ mo = [s \in Sites |-> "?"] /\ TLCSet(1, 1) /\ TLCSet(2, <<>>)

TCall == /\ IsEv("call")
         /\ CASE Ev.op = "LockS" -> CallLock(Ev.t, "S") [] Ev.op = "LockSIX" -> CallLock(Ev.t, "SIX")
              [] Ev.op = "LockX" -> CallLock(Ev.t, "X") [] Ev.op = "Unlock" -> CallUnlock(Ev.t)
              [] Ev.op = "Upgrade" -> CallUpgrade(Ev.t) [] Ev.op = "Downgrade" -> CallDowngrade(Ev.t)
              [] Ev.op = "GetVersion" -> CallGetVersion(Ev.t) [] Ev.op = "Verify" -> CallVerify(Ev.t)
              [] Ev.op = "CVerify" -> CallCVerify(Ev.t) [] Ev.op = "PrepareRead" -> CallPrepare(Ev.t)
              [] Ev.op = "TryLockS" -> CallTryLock(Ev.t, "S") [] Ev.op = "TryLockSIX" -> CallTryLock(Ev.t, "SIX")
              [] Ev.op = "TryLockX" -> CallTryLock(Ev.t, "X")
              [] OTHER -> FALSE
         /\ Adv /\ UNCHANGED mo
TSetV == /\ IsEv("setv") /\ SetVersion(Ev.t, <<Ev.vh, Ev.vl>>) /\ Adv /\ UNCHANGED mo
TOp == /\ IsEv("op")
       /\ LET site == SiteOf(pc[Ev.t]) IN
          \/ /\ KindOK(site, Ev.k)
             /\ OpStep(Ev.t)
             /\ (Ev.k # "fence" => w' = EvWord)
             /\ (Ev.k = "casf") = (site \in CasSites /\ pc'[Ev.t] \in BackLabels)
             /\ Learn(site)
          \/ /\ Ev.k = "load" /\ site \in LoadSites      \* failing spin iteration
             /\ w = EvWord
             /\ Learn(site)
             /\ UNCHANGED vars
          \/ /\ Ev.k = "fence" /\ pc[Ev.t] = "V_load"     \* the fence of a repeated VerifyVersion iteration
             /\ UNCHANGED <<vars, mo>>
       /\ Adv
V(e) == <<e.vh, e.vl>>
RetOK(t, e) ==
  CASE e.op = "Verify" -> e.r = (IF res[t] = "T" THEN 1 ELSE 0) /\ V(e) = og[t]
    [] e.op = "CVerify" -> e.r = 1
    [] e.op \in {"TryLockS", "TryLockSIX", "TryLockX"} -> e.b = (IF res[t] = "T" THEN 1 ELSE 0) /\ V(e) = og[t]
    [] e.op = "GetVersion" -> V(e) = og[t]
    [] e.op = "PrepareRead" -> e.b = (IF comp[t] THEN 1 ELSE 0) /\ (~comp[t] => V(e) = og[t])
    [] e.op = "LockX" -> e.b = 1 /\ V(e) = oldv[t]
    [] e.op \in {"LockS", "LockSIX"} -> e.b = 1
    [] e.op = "Upgrade" -> e.b = 1 /\ V(e) = oldv[t]
    [] e.op = "Downgrade" -> e.b = 1
    [] OTHER -> TRUE
TRet == /\ IsEv("ret") /\ Ret(Ev.t) /\ RetOK(Ev.t, Ev) /\ Adv /\ UNCHANGED mo
TReset == /\ IsEv("reset")
          /\ w' = Word(FALSE, FALSE, 0, V0) /\ pc' = [t \in Threads |-> "idle"]
          /\ cur' = [t \in Threads |-> Word(FALSE, FALSE, 0, V0)]
          /\ held' = [t \in Threads |-> "none"] /\ nops' = [t \in Threads |-> 0]
          /\ sid' = [t \in Threads |-> <<0, 0>>] /\ nsec' = [t \in Threads |-> 0] /\ ended' = {}
          /\ C' = [t \in Threads |-> {}] /\ rel' = {}
          /\ og' = [t \in Threads |-> NoV] /\ oldv' = [t \in Threads |-> V0] /\ newv' = [t \in Threads |-> V0]
          /\ comp' = [t \in Threads |-> FALSE] /\ att' = [t \in Threads |-> 0] /\ res' = [t \in Threads |-> "-"]
          /\ pub' = V0
          /\ Adv /\ UNCHANGED mo
TNext == TCall \/ TSetV \/ TOp \/ TRet \/ TReset
TSpec == TInit /\ [][TNext]_tvars

Progress == IF l > TLCGet(1) THEN TLCSet(1, l) /\ TLCSet(2, mo) ELSE TRUE
Accepted == /\ PrintT(<<"MAXL", TLCGet(1), "LEN", Len(Tr)>>)
            /\ PrintT(<<"MO", TLCGet(2)>>)
            /\ TLCGet(1) = Len(Tr) + 1
MOdummy == [s \in Sites |-> "sc"]
NoSetVers == {}
=============================================================================
