------------------------------ MODULE PessImpl ------------------------------
(***************************************************************************)
(* Level 2: PessimisticLock as implemented (src/lock/pessimistic_lock.cpp),*)
(* one action per atomic operation.  The lock word is the record           *)
(* [x, six, s].  A spin loop is an await: a failing iteration is a stutter.*)
(* Threads run nondeterministic client programs: an idle thread may call   *)
(* any operation that is legal for what it holds (at most MaxOps calls     *)
(* that acquire or convert; releasing is always allowed), so one TLC run   *)
(* covers every program up to that length.                                 *)
(*                                                                         *)
(* Ghost layer HB (C08): C[t] = set of section tokens that happen-before   *)
(* thread t's current point, rel = tokens carried by the release           *)
(* sequence(s) headed at the last write of the word.  The memory orders    *)
(* are NOT written here: MO[site] is a constant generated from the running *)
(* code (binding B4, learnt by PessImplTrace).                             *)
(***************************************************************************)
EXTENDS Naturals, Sequences, FiniteSets, TLC

CONSTANTS Threads, MaxOps, MO, WithHB

VARIABLES w, pc, cur, held, nops, sid, nsec, ended, C, rel
vars == <<w, pc, cur, held, nops, sid, nsec, ended, C, rel>>

Sites == {"LockS_load", "LockS_cas", "LockSIX_load", "LockSIX_cas", "LockX_load", "LockX_cas",
          "UnlockS_fsub", "UnlockSIX_fxor", "UnlockX_store", "Upgrade_load", "Upgrade_cas", "Downgrade_store",
          "LockS_casf", "LockSIX_casf", "LockX_casf", "Upgrade_casf"}     \* ..._casf: failure order of the CAS
Word(x, six, s) == [x |-> x, six |-> six, s |-> s]
Free == Word(FALSE, FALSE, 0)
Modes == {"S", "SIX", "X"}
Conflict(a, b) == (a = "X") \/ (b = "X") \/ (a = "SIX" /\ b = "SIX")
IsAcq(m) == m \in {"acq", "acqrel", "sc"}
IsRel(m) == m \in {"rel", "acqrel", "sc"}

Init == /\ w = Free
        /\ pc = [t \in Threads |-> "idle"]
        /\ cur = [t \in Threads |-> Free]
        /\ held = [t \in Threads |-> "none"]
        /\ nops = [t \in Threads |-> 0]
        /\ sid = [t \in Threads |-> <<0, 0>>]
        /\ nsec = [t \in Threads |-> 0]
        /\ ended = {}
        /\ C = [t \in Threads |-> {}]
        /\ rel = {}

-----------------------------------------------------------------------------
\* ---- happens-before ghost (no effect on the other variables) ----
LoadHB(t, site)  == IF WithHB /\ IsAcq(MO[site]) THEN C' = [C EXCEPT ![t] = C[t] \cup rel] ELSE UNCHANGED C
RmwHB(t, site)   == IF WithHB
                    THEN LET c1 == IF IsAcq(MO[site]) THEN C[t] \cup rel ELSE C[t] IN
                         /\ C' = [C EXCEPT ![t] = c1]
                         /\ rel' = IF IsRel(MO[site]) THEN rel \cup c1 ELSE rel
                    ELSE UNCHANGED <<C, rel>>
StoreHB(t, site) == IF WithHB THEN (rel' = IF IsRel(MO[site]) THEN C[t] ELSE {}) /\ UNCHANGED C
                    ELSE UNCHANGED <<C, rel>>
\* a section begins / ends (tokens are <<thread, k>>)
BeginSec(t, m) == /\ held' = [held EXCEPT ![t] = m]
                  /\ nsec' = [nsec EXCEPT ![t] = nsec[t] + 1]
                  /\ sid' = [sid EXCEPT ![t] = <<t, nsec[t] + 1>>]
\* the section's token is published into C[t] at the call of the releasing / converting operation
EndSec(t) == /\ ended' = IF WithHB THEN ended \cup {[tok |-> sid[t], m |-> held[t]]} ELSE ended
             /\ C' = IF WithHB THEN [C EXCEPT ![t] = C[t] \cup {sid[t]}] ELSE C

Goto(t, l) == pc' = [pc EXCEPT ![t] = l]
Count(t) == nops' = [nops EXCEPT ![t] = nops[t] + 1]

-----------------------------------------------------------------------------
\* ---- calls ----
CallLock(t, m) == /\ pc[t] = "idle" /\ held[t] = "none" /\ nops[t] < MaxOps
                  /\ Goto(t, "L_" \o m) /\ Count(t)
                  /\ UNCHANGED <<w, cur, held, sid, nsec, ended, C, rel>>
CallUnlock(t) == /\ pc[t] = "idle" /\ held[t] \in Modes
                 /\ EndSec(t) /\ Goto(t, "U_" \o held[t])
                 /\ UNCHANGED <<w, cur, held, nops, sid, nsec, rel>>
CallUpgrade(t) == /\ pc[t] = "idle" /\ held[t] = "SIX" /\ nops[t] < MaxOps
                  /\ EndSec(t) /\ Goto(t, "UP_load") /\ Count(t)
                  /\ UNCHANGED <<w, cur, held, sid, nsec, rel>>
CallDowngrade(t) == /\ pc[t] = "idle" /\ held[t] = "X" /\ nops[t] < MaxOps
                    /\ EndSec(t) /\ Goto(t, "DN_store") /\ Count(t)
                    /\ UNCHANGED <<w, cur, held, sid, nsec, rel>>

\* ---- LockS / LockSIX / LockX: load (await the test), then CAS ----
Admit(m, c) == CASE m = "S" -> ~c.x [] m = "SIX" -> ~c.x /\ ~c.six [] OTHER -> c = Free
Add(m, c) == CASE m = "S" -> [c EXCEPT !.s = c.s + 1] [] m = "SIX" -> [c EXCEPT !.six = TRUE] [] OTHER -> [c EXCEPT !.x = TRUE]
LLoad(t, m) == /\ pc[t] = "L_" \o m /\ Admit(m, w)
               /\ cur' = [cur EXCEPT ![t] = w]
               /\ LoadHB(t, "Lock" \o m \o "_load")
               /\ Goto(t, "C_" \o m)
               /\ UNCHANGED <<w, held, nops, sid, nsec, ended, rel>>
LCas(t, m) == /\ pc[t] = "C_" \o m
              /\ IF w = cur[t]
                 THEN /\ w' = Add(m, w)
                      /\ RmwHB(t, "Lock" \o m \o "_cas")
                      /\ BeginSec(t, m) /\ Goto(t, "ret")
                      /\ UNCHANGED <<cur, nops, ended>>
                 ELSE /\ Goto(t, "L_" \o m)        \* failed CAS (a load with the failure order): back to the load
                      /\ LoadHB(t, "Lock" \o m \o "_casf")
                      /\ UNCHANGED <<w, cur, held, nops, sid, nsec, ended, rel>>
\* ---- UnlockS / UnlockSIX / UnlockX ----
USub(t) == /\ pc[t] = "U_S"
           /\ w' = [w EXCEPT !.s = w.s - 1]
           /\ RmwHB(t, "UnlockS_fsub")
           /\ held' = [held EXCEPT ![t] = "none"] /\ Goto(t, "ret")
           /\ UNCHANGED <<cur, nops, sid, nsec, ended>>
UXor(t) == /\ pc[t] = "U_SIX"
           /\ w' = [w EXCEPT !.six = ~w.six]
           /\ RmwHB(t, "UnlockSIX_fxor")
           /\ held' = [held EXCEPT ![t] = "none"] /\ Goto(t, "ret")
           /\ UNCHANGED <<cur, nops, sid, nsec, ended>>
UStore(t) == /\ pc[t] = "U_X"
             /\ w' = Free
             /\ StoreHB(t, "UnlockX_store")
             /\ held' = [held EXCEPT ![t] = "none"] /\ Goto(t, "ret")
             /\ UNCHANGED <<cur, nops, sid, nsec, ended>>
\* ---- UpgradeToX: await word = SIX only, then CAS to X ----
UpLoad(t) == /\ pc[t] = "UP_load" /\ w = Word(FALSE, TRUE, 0)
             /\ cur' = [cur EXCEPT ![t] = w]
             /\ LoadHB(t, "Upgrade_load") /\ Goto(t, "UP_cas")
             /\ UNCHANGED <<w, held, nops, sid, nsec, ended, rel>>
UpCas(t) == /\ pc[t] = "UP_cas"
            /\ IF w = cur[t]
               THEN /\ w' = Word(TRUE, FALSE, 0)
                    /\ RmwHB(t, "Upgrade_cas")
                    /\ BeginSec(t, "X") /\ Goto(t, "ret")
                    /\ UNCHANGED <<cur, nops, ended>>
               ELSE /\ Goto(t, "UP_load")
                    /\ LoadHB(t, "Upgrade_casf")
                    /\ UNCHANGED <<w, cur, held, nops, sid, nsec, ended, rel>>
\* ---- DowngradeToSIX: one store ----
DnStore(t) == /\ pc[t] = "DN_store"
              /\ w' = Word(FALSE, TRUE, 0)
              /\ StoreHB(t, "Downgrade_store")
              /\ BeginSec(t, "SIX") /\ Goto(t, "ret")
              /\ UNCHANGED <<cur, nops, ended>>
Ret(t) == /\ pc[t] = "ret" /\ Goto(t, "idle")
          /\ UNCHANGED <<w, cur, held, nops, sid, nsec, ended, C, rel>>

Call(t) == (\E m \in Modes : CallLock(t, m)) \/ CallUnlock(t) \/ CallUpgrade(t) \/ CallDowngrade(t)
OpStep(t) == (\E m \in Modes : LLoad(t, m) \/ LCas(t, m)) \/ USub(t) \/ UXor(t) \/ UStore(t)
             \/ UpLoad(t) \/ UpCas(t) \/ DnStore(t)
Step(t) == Call(t) \/ OpStep(t) \/ Ret(t)
Next == \E t \in Threads : Step(t)
Spec == Init /\ [][Next]_vars
FairSpec == Spec /\ \A t \in Threads : WF_vars(Step(t))

-----------------------------------------------------------------------------
\* ---- properties ----
Compat == \A a, b \in Threads : (a # b /\ held[a] \in Modes /\ held[b] \in Modes) => ~Conflict(held[a], held[b])      \* C01, C10
\* the word always says exactly what is held (a conversion never passes through "nothing held": C10)
WordOK == /\ w.s = Cardinality({t \in Threads : held[t] = "S"})
          /\ w.six = (\E t \in Threads : held[t] = "SIX")
          /\ w.x = (\E t \in Threads : held[t] = "X")
AllDone == \A t \in Threads : pc[t] = "idle" /\ held[t] = "none" /\ nops[t] >= MaxOps
NoDeadlock == AllDone \/ ENABLED Next                                                                                 \* C02
FreeAtEnd == AllDone => w = Free
Termination == <>AllDone
\* C08: when a section is active every ended conflicting section of another thread happens-before it
HB == WithHB => \A t \in Threads : held[t] \in Modes =>
        \A e \in ended : (e.tok[1] # t /\ Conflict(e.m, held[t])) => e.tok \in C[t]
=============================================================================
