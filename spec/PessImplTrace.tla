---------------------------- MODULE PessImplTrace ----------------------------
(***************************************************************************)
(* Binding B1 + B4 for PessimisticLock: the instrumented operation stream  *)
(* of a real execution must be a behaviour of PessImpl, step for step:     *)
(* every call / atomic operation / return of thread t is the action        *)
(* enabled at pc[t], with the same kind of operation and the same word     *)
(* value afterwards.  A failing spin iteration (a load whose test fails)   *)
(* is a stutter that must read the value the specification holds.          *)
(* While matching, the memory order passed at each site is learnt (mo);    *)
(* the table is printed at the end and instantiates MO for model checking. *)
(***************************************************************************)
EXTENDS PessImpl, Json, IOUtils

VARIABLES l, mo
Tr == ndJsonDeserialize(IOEnv.TRACE)
tvars == <<vars, l, mo>>
Ev == Tr[l]
IsEv(k) == l <= Len(Tr) /\ Tr[l].e = k
Adv == l' = l + 1

\* site and admissible operation kinds of the atomic operation a thread at label p performs next
SiteOf(p) == CASE p = "L_S" -> "LockS_load" [] p = "C_S" -> "LockS_cas"
               [] p = "L_SIX" -> "LockSIX_load" [] p = "C_SIX" -> "LockSIX_cas"
               [] p = "L_X" -> "LockX_load" [] p = "C_X" -> "LockX_cas"
               [] p = "U_S" -> "UnlockS_fsub" [] p = "U_SIX" -> "UnlockSIX_fxor" [] p = "U_X" -> "UnlockX_store"
               [] p = "UP_load" -> "Upgrade_load" [] p = "UP_cas" -> "Upgrade_cas" [] p = "DN_store" -> "Downgrade_store"
               [] OTHER -> "none"
KindOK(site, k) == CASE site \in {"LockS_load", "LockSIX_load", "LockX_load", "Upgrade_load"} -> k = "load"
                     [] site \in {"LockS_cas", "LockSIX_cas", "LockX_cas", "Upgrade_cas"} -> k \in {"cas", "casf"}
                     [] site = "UnlockS_fsub" -> k \in {"fsub", "fadd"}
                     [] site = "UnlockSIX_fxor" -> k = "fxor"
                     [] site \in {"UnlockX_store", "Downgrade_store"} -> k \in {"store", "xchg"}
                     [] OTHER -> FALSE
EvWord == [x |-> Ev.x = 1, six |-> Ev.six = 1, s |-> Ev.s]
AllSites == Sites
Learn(site) == LET key == IF Ev.k = "casf" THEN site \o "f" ELSE site IN
               /\ mo[key] \in {"?", Ev.mo}
               /\ mo' = [mo EXCEPT ![key] = Ev.mo]

TInit == Init /\ l = 1 /\ mo = [s \in AllSites |-> "?"] /\ TLCSet(1, 1) /\ TLCSet(2, <<>>)

TCall == /\ IsEv("call")
         /\ CASE Ev.op = "LockS" -> CallLock(Ev.t, "S") [] Ev.op = "LockSIX" -> CallLock(Ev.t, "SIX")
              [] Ev.op = "LockX" -> CallLock(Ev.t, "X") [] Ev.op = "Unlock" -> CallUnlock(Ev.t)
              [] Ev.op = "Upgrade" -> CallUpgrade(Ev.t) [] Ev.op = "Downgrade" -> CallDowngrade(Ev.t)
              [] OTHER -> FALSE
         /\ Adv /\ UNCHANGED mo
TOp == /\ IsEv("op")
       /\ \/ /\ KindOK(SiteOf(pc[Ev.t]), Ev.k)          \* the operation the specification expects here
             /\ OpStep(Ev.t)
             /\ w' = EvWord
             /\ (Ev.k = "casf") = (pc'[Ev.t] \in {"L_S", "L_SIX", "L_X", "UP_load"})
             /\ Learn(SiteOf(pc[Ev.t]))
          \/ /\ Ev.k = "load"                            \* failing spin iteration: reads the current word, changes nothing
             /\ KindOK(SiteOf(pc[Ev.t]), "load")
             /\ w = EvWord
             /\ Learn(SiteOf(pc[Ev.t]))
             /\ UNCHANGED vars
       /\ Adv
TRet == /\ IsEv("ret") /\ Ret(Ev.t) /\ Adv /\ UNCHANGED mo
TReset == /\ IsEv("reset")
          /\ w' = Free /\ pc' = [t \in Threads |-> "idle"] /\ cur' = [t \in Threads |-> Free]
          /\ held' = [t \in Threads |-> "none"] /\ nops' = [t \in Threads |-> 0]
          /\ sid' = [t \in Threads |-> <<0, 0>>] /\ nsec' = [t \in Threads |-> 0] /\ ended' = {}
          /\ C' = [t \in Threads |-> {}] /\ rel' = {}
          /\ Adv /\ UNCHANGED mo
TNext == TCall \/ TOp \/ TRet \/ TReset
TSpec == TInit /\ [][TNext]_tvars

Progress == IF l > TLCGet(1) THEN TLCSet(1, l) /\ TLCSet(2, mo) ELSE TRUE
Accepted == /\ PrintT(<<"MAXL", TLCGet(1), "LEN", Len(Tr)>>)
            /\ PrintT(<<"MO", TLCGet(2)>>)
            /\ TLCGet(1) = Len(Tr) + 1
MOdummy == [s \in Sites |-> "sc"]
=============================================================================
