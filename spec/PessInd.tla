------------------------------ MODULE PessInd ------------------------------
(***************************************************************************)
(* An inductive invariant of PessImpl, checked by TLC itself: every state  *)
(* that satisfies IndInv (not only the reachable ones) is taken as an      *)
(* initial state and one step of Next must lead to a state satisfying      *)
(* IndInv again.  Together with Init => IndInv this proves Compat and      *)
(* WordOK (C01, C10) for executions of ANY length of the given threads -   *)
(* the bound MaxOps of the model-checking configurations disappears.       *)
(* The ghost counters nops/nsec/sid and the happens-before ghosts do not   *)
(* influence the other variables (WithHB = FALSE; MaxOps is set above any  *)
(* value nops takes here), so they are fixed in the initial states.        *)
(***************************************************************************)
EXTENDS PessImpl

Words == {Word(x, six, s) : x \in BOOLEAN, six \in BOOLEAN, s \in 0..Cardinality(Threads)}
PCs == {"idle", "ret", "L_S", "L_SIX", "L_X", "C_S", "C_SIX", "C_X", "U_S", "U_SIX", "U_X", "UP_load", "UP_cas", "DN_store"}
TypeOK == /\ w \in Words
          /\ pc \in [Threads -> PCs]
          /\ cur \in [Threads -> Words]
          /\ held \in [Threads -> {"none", "S", "SIX", "X"}]

\* what a thread holds, given where it is: inside a releasing / converting call the grant is still counted in
\* `held` until the operation that gives it up
PcOK == \A t \in Threads :
          /\ pc[t] \in {"L_S", "L_SIX", "L_X", "C_S", "C_SIX", "C_X"} => held[t] = "none"
          /\ pc[t] = "U_S" => held[t] = "S"
          /\ pc[t] = "U_SIX" => held[t] = "SIX"
          /\ pc[t] = "U_X" => held[t] = "X"
          /\ pc[t] \in {"UP_load", "UP_cas"} => held[t] = "SIX"
          /\ pc[t] = "DN_store" => held[t] = "X"
          \* the value a CAS expects was admissible when it was read
          /\ pc[t] = "C_S" => ~cur[t].x
          /\ pc[t] = "C_SIX" => (~cur[t].x /\ ~cur[t].six)
          /\ pc[t] = "C_X" => cur[t] = Free
          /\ pc[t] = "UP_cas" => cur[t] = Word(FALSE, TRUE, 0)

IndInv == TypeOK /\ WordOK /\ PcOK /\ Compat
\* the initial states of the inductive check, built thread by thread: a local state is (pc, held, cur); cur is read
\* only by the CAS steps, so it is given a canonical value elsewhere (Next never looks at it there)
CasPcs == {"C_S", "C_SIX", "C_X", "UP_cas"}
LocalOK(p, h, c) ==
    /\ p \in {"L_S", "L_SIX", "L_X", "C_S", "C_SIX", "C_X"} => h = "none"
    /\ p = "U_S" => h = "S"
    /\ p = "U_SIX" => h = "SIX"
    /\ p = "U_X" => h = "X"
    /\ p \in {"UP_load", "UP_cas"} => h = "SIX"
    /\ p = "DN_store" => h = "X"
    /\ p = "C_S" => ~c.x
    /\ p = "C_SIX" => (~c.x /\ ~c.six)
    /\ p = "C_X" => c = Free
    /\ p = "UP_cas" => c = Word(FALSE, TRUE, 0)
    /\ p \notin CasPcs => c = Free
Local == {l \in [pc : PCs, held : {"none", "S", "SIX", "X"}, cur : Words] : LocalOK(l.pc, l.held, l.cur)}
WordOf(f) == Word(\E t \in Threads : f[t].held = "X", \E t \in Threads : f[t].held = "SIX",
                  Cardinality({t \in Threads : f[t].held = "S"}))
IndInit == \E f \in [Threads -> Local] :
             /\ \A a, b \in Threads : (a # b /\ f[a].held \in Modes /\ f[b].held \in Modes) => ~Conflict(f[a].held, f[b].held)
             /\ pc = [t \in Threads |-> f[t].pc] /\ held = [t \in Threads |-> f[t].held] /\ cur = [t \in Threads |-> f[t].cur]
             /\ w = WordOf(f)
             /\ nops = [t \in Threads |-> 0] /\ sid = [t \in Threads |-> <<0, 0>>] /\ nsec = [t \in Threads |-> 0]
             /\ ended = {} /\ C = [t \in Threads |-> {}] /\ rel = {}
IndSpec == IndInit /\ [][Next]_vars
\* only the successors of the initial states are needed (level 1 = initial states)
OneStepOnly == TLCGet("level") <= 2
\* Init => IndInv is checked by the ordinary configurations (IndInv is an invariant of Spec as well)
=============================================================================
