---------------------------- MODULE ZipfAbsTrace ----------------------------
(***************************************************************************)
(* C19: a Zipf generator is a pure function                                *)
(*   (class, type, min, max, alpha, engine state) |-> value.               *)
(* The trace holds, per parameter tuple, every value produced by the       *)
(* original object, by a second object with equal parameters, by copies,   *)
(* moved-to objects, repeated calls and concurrently sampling threads;     *)
(* the engine state is (seed, position in the sequence).  memo is the      *)
(* function learnt so far: every sample must agree with it.                *)
(* Construction must throw exactly when max < min (bad = 1).  Sampling     *)
(* must leave the bytes of the generator object unchanged (no hidden       *)
(* mutable state inside the object).                                       *)
(***************************************************************************)
EXTENDS Integers, Sequences, FiniteSets, TLC, Json, IOUtils

Tr == ndJsonDeserialize(IOEnv.TRACE)
VARIABLES l, memo
vars == <<l, memo>>
Ev == Tr[l]
IsEv(k) == l <= Len(Tr) /\ Tr[l].e = k

Init == l = 1 /\ memo = <<>> /\ TLCSet(1, 1)
Samp == /\ IsEv("samp")
        /\ LET key == <<Ev.sd, Ev.k>> IN
           IF key \in DOMAIN memo
           THEN memo[key] = Ev.v /\ UNCHANGED memo
           ELSE memo' = memo @@ (key :> Ev.v)
        /\ l' = l + 1
Cons == IsEv("cons") /\ Ev.threw = Ev.bad /\ l' = l + 1 /\ UNCHANGED memo
\* calling a generator does not change it: its object representation is the same before and after sampling
Bytes == IsEv("bytes") /\ Ev.same = 1 /\ l' = l + 1 /\ UNCHANGED memo
Reset == IsEv("reset") /\ memo' = <<>> /\ l' = l + 1
Next == Samp \/ Cons \/ Bytes \/ Reset
Spec == Init /\ [][Next]_vars
Progress == IF l > TLCGet(1) THEN TLCSet(1, l) ELSE TRUE
Accepted == /\ PrintT(<<"MAXL", TLCGet(1), "LEN", Len(Tr)>>)
            /\ TLCGet(1) = Len(Tr) + 1
=============================================================================
