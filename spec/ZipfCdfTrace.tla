---------------------------- MODULE ZipfCdfTrace ----------------------------
(***************************************************************************)
(* C18: the CDF tables of the Zipf generators.  A record holds, for one     *)
(* parameter tuple (type, min, n bins, alpha = a100/100), the values        *)
(* GetCDF(k) of the exact class (ex) and of the approximate class (ap) at   *)
(* the bins ks, as fixed-point integers floor(cdf * 2^30) - 1.0 is exactly  *)
(* 2^30 - plus, for small tables, the IEEE representation in four 16-bit    *)
(* quarters (exq, apq) and a coarse rounding round(cdf * 2^13) (ex13).      *)
(*                                                                          *)
(*   Mono      the exact table is non-decreasing                            *)
(*   Last      both classes are exactly 1 at the last bin, for every n      *)
(*   Same      n <= 100: the approximate class reproduces the exact values  *)
(*             bit for bit                                                  *)
(*   Close     n >= 1000, 0 <= alpha <= 3: |approx - exact| <= 0.01         *)
(*   Law       integer alpha, n <= 16: the exact table is Zipf's law,       *)
(*             GetCDF(k) = sum_{i<=k+1} i^-alpha / sum_{i<=n} i^-alpha,     *)
(*             recomputed here in integer fixed-point arithmetic (terms     *)
(*             2^13 div i^alpha; all products stay below 2^31) and compared  *)
(*             with tolerance 0.5 % - enough for a wrong index, exponent or *)
(*             normalisation, not for rounding in the last places           *)
(* TLC has no reals: nothing finer is decided here (see DESIGN.md).         *)
(***************************************************************************)
EXTENDS Integers, Sequences, FiniteSets, TLC, Json, IOUtils

Tr == ndJsonDeserialize(IOEnv.TRACE)
VARIABLE l
Ev == Tr[l]

ONE == 1073741824
TOL == 10737419            \* 0.01 * 2^30, rounded up, + 1 for the two floors
S13 == 8192
Abs(x) == IF x < 0 THEN -x ELSE x
Mono(s) == \A i \in 1..(Len(s) - 1) : s[i] <= s[i + 1]
InUnit(s) == \A i \in 1..Len(s) : s[i] >= 0 /\ s[i] <= ONE
Dense(r) == Len(r.ks) = r.n /\ \A i \in 1..Len(r.ks) : r.ks[i] = i - 1
EndsAtLast(r) == Len(r.ks) > 0 /\ r.ks[Len(r.ks)] = r.n - 1

RECURSIVE Pow(_, _)
Pow(b, e) == IF e = 0 THEN 1 ELSE b * Pow(b, e - 1)
Term(i, a) == S13 \div Pow(i, a)
RECURSIVE Partial(_, _)
Partial(k, a) == IF k = 0 THEN 0 ELSE Partial(k - 1, a) + Term(k, a)
Law(r) == LET a == r.a100 \div 100
              tot == Partial(r.n, a) IN
          \A k \in 0..(r.n - 1) : Abs(r.ex13[k + 1] * tot - Partial(k + 1, a) * S13) <= 41 * tot

Approx(r) == /\ Len(r.ap) = Len(r.ks) /\ InUnit(r.ap)
             /\ EndsAtLast(r) => r.ap[Len(r.ap)] = ONE
Exact(r) == /\ Len(r.ex) = Len(r.ks) /\ InUnit(r.ex)
            /\ Mono(r.ex)
            /\ EndsAtLast(r) => r.ex[Len(r.ex)] = ONE
            /\ r.n <= 100 => (Len(r.exq) = Len(r.ks) /\ r.apq = r.exq)
            /\ (r.n >= 1000 /\ r.a100 >= 0 /\ r.a100 <= 300) => \A i \in 1..Len(r.ks) : Abs(r.ap[i] - r.ex[i]) <= TOL
            /\ (r.a100 \in {0, 100, 200, 300} /\ r.n <= 16 /\ Dense(r)) => Law(r)

Init == l = 1 /\ TLCSet(1, 1)
Tab == /\ l <= Len(Tr) /\ Ev.e = "tab"
       /\ Approx(Ev)
       /\ Ev.hasex = 1 => Exact(Ev)
       /\ l' = l + 1
Reset == l <= Len(Tr) /\ Ev.e = "reset" /\ l' = l + 1
Next == Tab \/ Reset
Spec == Init /\ [][Next]_l
Progress == IF l > TLCGet(1) THEN TLCSet(1, l) ELSE TRUE
Accepted == /\ PrintT(<<"MAXL", TLCGet(1), "LEN", Len(Tr)>>)
            /\ TLCGet(1) = Len(Tr) + 1
=============================================================================
