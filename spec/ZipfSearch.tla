---------------------------- MODULE ZipfSearch ----------------------------
EXTENDS Integers, Sequences, FiniteSets, TLC
CONSTANTS MaxN, K
\* order abstraction: cdf is a non-decreasing sequence over 0..K ending in K; u in 0..K-1  (u < 1.0 = cdf[last])
VARIABLES cdf, u, b, e, pc, r
vars == <<cdf, u, b, e, pc, r>>
NonDec(s) == \A i \in 1..(Len(s)-1) : s[i] <= s[i+1]
CDFs == UNION {{s \in [1..n -> 0..K] : NonDec(s) /\ s[n] = K} : n \in 1..MaxN}
At(i) == cdf[i + 1]                      \* zero-based .at(i); out of range = TLC error (models the exception)
Init == /\ cdf \in CDFs /\ u \in 0..(K-1) /\ b = 0 /\ e = Len(cdf) - 1 /\ pc = "loop" /\ r = -1
Loop == /\ pc = "loop"
        /\ IF b < e
           THEN LET pos == (b + e) \div 2 IN
                IF u < At(pos) THEN /\ e' = pos - 1 /\ UNCHANGED <<b, pc>>
                ELSE IF u > At(pos) THEN /\ b' = pos + 1 /\ UNCHANGED <<e, pc>>
                ELSE /\ b' = pos /\ pc' = "fix" /\ UNCHANGED e
           ELSE /\ pc' = "fix" /\ UNCHANGED <<b, e>>
        /\ UNCHANGED <<cdf, u, r>>
Fix == /\ pc = "fix" /\ b \in 0..(Len(cdf)-1)
       /\ r' = IF u > At(b) THEN b + 1 ELSE b
       /\ pc' = "done" /\ UNCHANGED <<cdf, u, b, e>>
Next == Loop \/ Fix
Spec == Init /\ [][Next]_vars /\ WF_vars(Next)
InRange == pc = "fix" => b \in 0..(Len(cdf)-1)
Post == pc = "done" => /\ r \in 0..(Len(cdf)-1)
                       /\ u <= At(r)
                       /\ (r > 0 => At(r-1) <= u)
Terminates == <>(pc = "done")
====
