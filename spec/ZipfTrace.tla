------------------------------ MODULE ZipfTrace ------------------------------
(***************************************************************************)
(* C06 on real samples.  Each record is one call of a Zipf generator on a  *)
(* harness-chosen engine output: inr = min <= v <= max, lo/hi = the        *)
(* inverse-CDF bracket GetCDF(v-min-1) <= u <= GetCDF(v-min) evaluated on  *)
(* the real doubles, and - for tables of up to 16 bins - the rank          *)
(* abstraction of the whole CDF table (tab) and of the variate (ru).  For  *)
(* those, the index returned by the implementation must equal what the     *)
(* search algorithm of ZipfSearch.tla computes on the abstracted table.    *)
(***************************************************************************)
EXTENDS Integers, Sequences, FiniteSets, TLC, Json, IOUtils

Tr == ndJsonDeserialize(IOEnv.TRACE)
VARIABLE l
Ev == Tr[l]
IsEv(k) == l <= Len(Tr) /\ Tr[l].e = k

\* the sampling algorithm of operator() over the order abstraction (same steps as ZipfSearch.tla)
RECURSIVE Go(_, _, _, _)
Go(tab, u, b, e) ==
  IF b < e
  THEN LET pos == (b + e) \div 2 IN
       IF u < tab[pos + 1] THEN Go(tab, u, b, pos - 1)
       ELSE IF u > tab[pos + 1] THEN Go(tab, u, pos + 1, e)
       ELSE pos
  ELSE b
Search(tab, u) == LET b == Go(tab, u, 0, Len(tab) - 1) IN IF u > tab[b + 1] THEN b + 1 ELSE b

NonDec(s) == \A i \in 1..(Len(s) - 1) : s[i] <= s[i + 1]
SampleOK(e) ==
  /\ e.inr = 1 /\ e.lo = 1 /\ e.hi = 1
  /\ Len(e.tab) > 0 =>
       /\ e.i = Search(e.tab, e.ru)                         \* the code took the model's path
       /\ e.ru <= e.tab[e.i + 1]                             \* inverse-CDF bracket on the abstraction
       /\ (e.i > 0 => e.tab[e.i] <= e.ru)

Init == l = 1 /\ TLCSet(1, 1)
Samp == IsEv("s") /\ SampleOK(Ev) /\ l' = l + 1
Dflt == IsEv("dflt") /\ Ev.zero = 1 /\ l' = l + 1
Reset == IsEv("reset") /\ l' = l + 1
Next == Samp \/ Dflt \/ Reset
Spec == Init /\ [][Next]_l
Progress == IF l > TLCGet(1) THEN TLCSet(1, l) ELSE TRUE
Accepted == /\ PrintT(<<"MAXL", TLCGet(1), "LEN", Len(Tr)>>)
            /\ TLCGet(1) = Len(Tr) + 1
=============================================================================
