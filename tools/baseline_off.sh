#!/bin/bash
# Build /repo with the verification guard OFF in a scratch directory and run its test suite.
set -e
B=$(mktemp -d /var/tmp/cpputil_baseline.XXXXXX)
trap 'rm -rf "$B"' EXIT
cmake -G Ninja -S /repo -B "$B" -DCPP_UTILITY_BUILD_TESTS=ON -DFETCHCONTENT_SOURCE_DIR_GOOGLETEST=/usr/src/googletest -DCMAKE_BUILD_TYPE=RelWithDebInfo -DDBGROUP_MAX_THREAD_NUM="(2 * 8)" >/dev/null
cmake --build "$B" -j16 >/dev/null
ctest --test-dir "$B" -j8 --timeout 900 --output-junit "$B/junit.xml" "$@"
