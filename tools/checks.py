#!/usr/bin/env python3
"""The per-property checks.  Each returns a result dict; finish() prints KNOWN-FINDING / VIOLATION
lines, writes the evidence file and computes the exit code."""
import os, sys, json, time, collections
import vlib, programs, level2
from vlib import InfraError, log, OUT, SPEC

REGISTRY = {}


def wdir(name):
    """per-process work directory (concurrent checks must not share raw trace files)"""
    return os.path.join(OUT, 'work', '%s.%d' % (name, os.getpid()))

ALL_SWITCHES = ('CkCompat', 'CkProgress', 'CkOptimistic', 'CkGuards', 'CkVersion', 'CkConvAtomic', 'CkFifo', 'CkPrepare')


def register(*props):
    def deco(fn):
        for p in props:
            REGISTRY[p] = fn
        return fn
    return deco


def rle(sched):
    """run-length form of a schedule string for messages"""
    out = []
    prev = None
    n = 0
    for x in sched.split(','):
        if x == prev:
            n += 1
        else:
            if prev is not None:
                out.append('%sx%d' % (prev, n) if n > 1 else prev)
            prev, n = x, 1
    if prev is not None:
        out.append('%sx%d' % (prev, n) if n > 1 else prev)
    return ' '.join(out)


def finish(prop, tier, seed, res, wall):
    viol = res.get('violations', [])
    known = 0
    new = 0
    seen = set()
    for v in viol:
        sig = tuple(sorted(v.get('signature', [])))
        f = vlib.match_finding(prop, v)
        if f is not None:
            key = ('known', f.get('id'))
            if key not in seen:
                seen.add(key)
                print('KNOWN-FINDING: property=%s %s' % (prop, f.get('what', f.get('id'))))
            known += 1
            continue
        key = ('new', sig)
        new += 1
        if key in seen or len([k for k in seen if k[0] == 'new']) >= 5:
            continue
        seen.add(key)
        path = vlib.write_replay(prop, len(seen), {'property': prop, 'description': v.get('desc'),
                                                   'signature': list(sig), 'replay': v.get('replay')})
        print('VIOLATION property=%s replay=%s' % (prop, path))
        log('  ' + str(v.get('desc')))
    cov = res.get('coverage', {})
    cov.setdefault('known_findings_hit', known)
    vlib.write_evidence(prop, tier, seed, res.get('level', 'model_checking'), cov, res.get('assumptions', []), wall, new)
    for n in res.get('notes', []):
        log('note: ' + n)
    # raw traces are large: drop the work directories of this property (replay files keep program + schedule)
    if not os.environ.get('VERIF_KEEP_WORK'):
        import shutil
        for d in (prop, 'b3', 'mc'):
            shutil.rmtree(wdir(d), ignore_errors=True)
    log('%s tier=%s: %d new violation(s), %d known-finding witness(es), %.1fs' % (prop, tier, new, known, wall))
    sys.stdout.flush()
    return 1 if new else 0


# ------------------------------------------------------------------------------------------------
# lock properties decided on API histories of real executions (B2) + Level-2 model checking
# ------------------------------------------------------------------------------------------------
def lock_cfg(switches, workdir, tag):
    sub = {k: ('TRUE' if k in switches else 'FALSE') for k in ALL_SWITCHES}
    return vlib.write_cfg(os.path.join(SPEC, 'cfg', 'LockAbsTrace.tpl.cfg'), sub, os.path.join(workdir, tag + '.cfg'))


def explore_lock(bdir, cls, progs, workdir, pb, max_exec, seed, mode='dfs', tag=None):
    files = vlib.run_harness(bdir, 'lockh', [cls], progs, workdir, mode=mode, pb=pb, max_exec=max_exec, seed=seed,
                             tag=tag or cls)
    execs = []
    for f in files:
        execs.extend(vlib.iter_execs(f))
    return execs


def status_counts(execs):
    c = collections.Counter(e.status for e in execs)
    return dict(c)


def sample_of(ex, hist, n=14):
    return {'program': ex.prog, 'schedule': ex.sched, 'status': ex.status,
            'history_head': [{k: v for k, v in e.items() if v not in (-1, '-')} for e in hist[:n]]}


def lock_abs_check(prop, tier, seed, switches, plan, fifo=False, crash_is_stuck=True, extra_sig=None):
    """plan: list of (cls, [program lines], dict(pb=, max_exec=, mode=))"""
    t0 = time.time()
    bdir = vlib.build(4)
    workdir = wdir(prop)
    os.makedirs(workdir, exist_ok=True)
    prog_text = {}
    all_execs = []
    infra = collections.Counter()
    truncated = 0
    from concurrent.futures import ThreadPoolExecutor

    status_all = {}

    def run_item(item):
        # explore one plan item, then project and de-duplicate at once (raw events are not kept in memory)
        k, (cls, progs, par) = item
        files = vlib.run_harness(bdir, 'lockh', [cls], progs, workdir, mode=par.get('mode', 'dfs'), pb=par.get('pb', 2),
                                 max_exec=par.get('max_exec', 4000), seed=seed, tag='%s%d' % (cls, k))
        cnt = {}
        # (a run that is still going after the step limit is a livelock: judged like a run that got stuck)
        groups = vlib.stream_groups(files, lambda ex: [{'e': 'prog', 'p': cls}] + vlib.api_history(ex, fifo=fifo, crash_is_stuck=crash_is_stuck),
                                    keep=lambda ex: ex.status not in ('diverged', 'logfull'), counters=cnt)
        for f in files:
            try:
                os.unlink(f)
            except OSError:
                pass
        return groups, cnt

    for cls, progs, par in plan:
        for p in progs:
            prog_text[p.split()[1]] = (cls, p)
    glists = []
    with ThreadPoolExecutor(max_workers=6) as pool:
        for groups, cnt in pool.map(run_item, list(enumerate(plan))):
            glists.append(groups)
            for st_, n_ in cnt.items():
                status_all[st_] = status_all.get(st_, 0) + n_
                if st_ in ('diverged', 'logfull'):
                    infra[st_] += n_
    t_explore = time.time() - t0
    groups = vlib.merge_groups(glists)
    n_execs = sum(n_ for st_, n_ in status_all.items() if st_ not in ('diverged', 'logfull'))
    hists = [g[0][1:] for g in groups]
    reps = [g[1] for g in groups]
    cfg = lock_cfg(switches, workdir, 'abs')
    spec = os.path.join(SPEC, 'LockAbsTrace.tla')
    rej, st = vlib.validate_until_clean(spec, cfg, hists, workdir, 'abs')
    violations = []
    confirmed = 0
    for r in rej[:12]:
        ex = reps[r['hist']]
        cls, ptext = prog_text[ex.prog]
        # re-run this execution alone; report only if the rejection repeats
        again = vlib.replay(bdir, 'lockh', [cls], ptext, ex.sched, workdir, tag='confirm')
        if not again:
            continue
        h2 = vlib.api_history(again[0], fifo=fifo, crash_is_stuck=crash_is_stuck)
        rej2, _ = vlib.validate_histories(spec, cfg, [h2], workdir, 'confirm', nchunks=1)
        if not rej2:
            log('rejection of %s did not repeat on re-run; ignored' % ex.prog)
            continue
        confirmed += 1
        line = rej2[0]['line']
        bad = h2[line] if line < len(h2) else {'e': 'end'}
        fam = ex.prog.split('_')[1] if '_' in ex.prog else ex.prog
        sig = ['cls:' + cls, 'fam:' + fam, 'ev:' + str(bad.get('e')), 'op:' + str(bad.get('op')), 'status:' + again[0].status]
        if extra_sig:
            sig += extra_sig(again[0], h2, line)
        violations.append({
            'desc': '%s: history of program %s (schedule %s) is not a behaviour of LockAbs[%s]; first unexplained event #%d: %s'
                    % (prop, ex.prog, rle(ex.sched), '+'.join(switches), line,
                       {k: v for k, v in bad.items() if v not in (-1, '-')}),
            'signature': sig,
            'replay': {'kind': 'lock', 'cls': cls, 'program': ptext, 'schedule': ex.sched, 'switches': list(switches),
                       'fifo': fifo, 'n': 4},
        })
    cov = {
        'states': max(1, st['distinct']), 'transitions': max(1, st['states']),
        'traces_validated_against_impl': n_execs,
        'distinct_histories': len(hists), 'events_validated': st['events'],
        'programs': len(prog_text), 'exec_status': {k_: v_ for k_, v_ in status_all.items() if k_ not in ('diverged', 'logfull')},
        'exploration_truncated_programs': truncated, 'inconclusive_executions': dict(infra),
        'switches': list(switches), 'explore_s': round(t_explore, 1),
        'samples': [sample_of(reps[i], hists[i]) for i in range(0, len(hists), max(1, len(hists) // 3))][:3],
        'rejected_histories': len(rej), 'rejections_confirmed_by_rerun': confirmed,
    }
    return {'level': 'model_checking', 'violations': violations, 'coverage': cov, 'assumptions': []}


LOCK_ASSUME = [
    'real executions run under a deterministic baton scheduler: interleavings are sequentially consistent',
    'exploration is preemption-bounded DFS over small client programs (2-3 threads); nothing is claimed beyond them',
    'weak CAS is mapped to strong CAS (a spurious failure is a stutter)',
    'threads do not nest requests on one lock; guard hand-over between threads is synchronised by the client',
]


def plan_for(families, tier, classes=('pess', 'opt', 'mcs')):
    plan = []
    for cls in classes:
        for fam, par in families:
            progs = fam(cls)
            if progs:
                plan.append((cls, progs, par))
    return plan


def tier_par(tier, quick, thorough):
    return quick if tier == 'quick' else thorough


CONV = ('UPG', 'DNG', 'UPDN', 'DNUP')
ALLOPT = programs.COMMON_SCRIPTS + programs.OPT_SCRIPTS


def base_plan(tier, seed, classes=('pess', 'opt', 'mcs'), opt_scripts=True, three=True, extra=()):
    """cross products of per-thread scripts: 2 threads exhaustively over the script library,
    3 threads with one converting thread; deeper preemption bounds in the thorough tier"""
    q = tier == 'quick'
    plan = []
    for cls in classes:
        lib = ALLOPT if (cls == 'opt' and opt_scripts) else programs.COMMON_SCRIPTS
        # (quick budgets: the whole check has to stay well below 15 minutes even when it is the first one to pay for Level 2)
        if q and cls == 'opt' and opt_scripts:
            # quick: every pair of common scripts, and the optimistic scripts against the common ones (not against each other)
            plan.append((cls, programs.cross2(cls, programs.COMMON_SCRIPTS), dict(pb=2, max_exec=800)))
            plan.append((cls, programs.cross2(cls, programs.OPT_SCRIPTS, programs.COMMON_SCRIPTS, tag='x2o'), dict(pb=2, max_exec=600)))
        else:
            plan.append((cls, programs.cross2(cls, lib), dict(pb=2 if q else 3, max_exec=1200 if q else 30000)))
        if three:
            plan.append((cls, programs.cross3(cls, CONV + ('X',), MODES3, MODES3),
                         dict(pb=1 if q else 2, max_exec=300 if q else 10000)))
            plan.append((cls, programs.cross3(cls, ('X',), MODES3, MODES3, tag='x3x'),
                         dict(pb=2, max_exec=1500 if q else 15000)))
            plan.append((cls, programs.four(cls, full=not q), dict(pb=1 if q else 2, max_exec=300 if q else 8000)))
            if cls == 'opt' and opt_scripts:
                plan.append((cls, programs.cross3(cls, ('GTX', 'GTI', 'PRV', 'GVV'), ('X', 'DNG', 'XSV', 'XX'), ('S', 'SIX', 'X')),
                             dict(pb=1 if q else 2, max_exec=300 if q else 10000)))
        for fam, par in extra:
            pr = fam(cls)
            if pr:
                plan.append((cls, pr, par))
        plan.append((cls, programs.crowd(cls), dict(pb=1 if q else 2, max_exec=400 if q else 6000)))
        plan.append((cls, programs.twolock_follow(cls), dict(pb=1 if q else 2, max_exec=200 if q else 4000)))
        plan.append((cls, programs.quiesce(cls), dict(pb=1 if q else 2, max_exec=60 if q else 3000)))
        # seeded random schedules (any number of preemptions) of the 3-thread products complement the bounded search
        if three:
            plan.append((cls, programs.cross3(cls, CONV + ('X',), MODES3, MODES3, tag='r3'), dict(mode='random', max_exec=40 if q else 400)))
        rp = programs.random_programs(cls, 8 if q else 40, seed)
        plan.append((cls, rp, dict(pb=1 if q else 2, max_exec=150 if q else 4000)))
        plan.append((cls, rp, dict(mode='random', max_exec=40 if q else 400)))
    return plan


MODES3 = ('S', 'SIX', 'X')


@register('C01')
def check_c01(prop, tier, seed):
    q = tier == 'quick'
    plan = base_plan(tier, seed, extra=[(programs.twolocks, dict(pb=2)), (programs.twosec, dict(pb=2, max_exec=2000 if q else 15000))])
    plan.append(('opt', programs.opt_basic() + programs.opt_prepare() + programs.opt_mix3(), dict(pb=2, max_exec=1000 if q else 15000)))
    plan.append(('opt', programs.cross3('opt', ('PRV', 'GTS', 'GTX'), ('X', 'XX', 'DNG', 'XSV'), ('S', 'SIX', 'X'), tag='o3r'),
                 dict(mode='random', max_exec=80 if q else 1500)))
    plan.append(('opt', programs.opt_quiesce(), dict(pb=1 if q else 2, max_exec=150 if q else 3000)))
    res = lock_abs_check(prop, tier, seed, ['CkCompat'], plan)
    res['assumptions'] = LOCK_ASSUME
    return res


@register('C02')
def check_c02(prop, tier, seed):
    q = tier == 'quick'
    plan = base_plan(tier, seed + 1, extra=[(programs.twosec, dict(pb=2, max_exec=2500 if q else 15000)),
                                            (programs.handover, dict(pb=1 if q else 2, max_exec=1500 if q else 10000)),
                                            (programs.twolocks, dict(pb=2))])
    plan.append(('opt', programs.opt_basic() + programs.opt_prepare() + programs.opt_version(), dict(pb=2, max_exec=2000 if q else 15000)))
    plan.append(('opt', programs.opt_quiesce(), dict(pb=1 if q else 2, max_exec=150 if q else 3000)))
    res = lock_abs_check(prop, tier, seed, ['CkProgress'], plan)
    res['assumptions'] = LOCK_ASSUME + ['every generated client program releases every grant and acquires locks in a fixed order, '
                                        'so a run that stops with a pending call is a lost hand-off or deadlock of the lock itself']
    return res


@register('C07')
def check_c07(prop, tier, seed):
    q = tier == 'quick'
    plan = base_plan(tier, seed + 2, three=False,
                     extra=[(programs.guards, dict(pb=2, max_exec=3000 if q else 15000)),
                            (programs.handover, dict(pb=1 if q else 2, max_exec=1500 if q else 10000))])
    plan.append(('opt', programs.opt_basic() + programs.opt_prepare() + programs.opt_version(), dict(pb=2, max_exec=2000 if q else 15000)))
    plan.append(('opt', programs.opt_quiesce(), dict(pb=1 if q else 2, max_exec=150 if q else 3000)))
    res = lock_abs_check(prop, tier, seed, ['CkGuards', 'CkProgress', 'CkCompat'], plan)
    res['assumptions'] = LOCK_ASSUME + ['a grant that is never released, or released twice, shows up as a guard boolean that '
                                        'disagrees with ownership or as a final exclusive probe that cannot be granted']
    return res


@register('C10')
def check_c10(prop, tier, seed):
    q = tier == 'quick'
    plan = []
    for cls in ('pess', 'opt', 'mcs'):
        lib = ALLOPT if cls == 'opt' else programs.COMMON_SCRIPTS
        conv = CONV + (('GTIUP',) if cls == 'opt' else ())
        plan.append((cls, programs.cross2(cls, conv, lib, tag='cv2'), dict(pb=2 if q else 3, max_exec=4000 if q else 30000)))
        plan.append((cls, programs.cross3(cls, conv, MODES3, MODES3, tag='cv3'), dict(pb=1 if q else 2, max_exec=800 if q else 10000)))
        plan.append((cls, programs.crowd(cls), dict(pb=1 if q else 2, max_exec=400 if q else 6000)))
        plan.append((cls, programs.quiesce(cls), dict(pb=1 if q else 2, max_exec=100 if q else 3000)))
        plan.append((cls, programs.cross3(cls, conv, MODES3, MODES3, tag='cr3'), dict(mode='random', max_exec=40 if q else 400)))
        if not q:
            plan.append((cls, programs.cross3(cls, conv, conv, MODES3, tag='cv3b'), dict(pb=2, max_exec=8000)))
    res = lock_abs_check(prop, tier, seed, ['CkConvAtomic', 'CkCompat'], plan)
    res['assumptions'] = LOCK_ASSUME
    return res


def opt_plan(tier, seed):
    q = tier == 'quick'
    return [('opt', programs.cross2('opt', ALLOPT + ('GTXX', 'XSV0')), dict(pb=2 if q else 3, max_exec=3000 if q else 30000)),
            ('opt', programs.cross3('opt', ('GTX', 'GTI', 'GTS', 'PRV', 'GVV'), ('X', 'DNG', 'XSV', 'UPG', 'XX'), ('S', 'SIX', 'X', 'XSV')),
             dict(pb=1 if q else 2, max_exec=600 if q else 10000)),
            ('opt', programs.opt_basic() + programs.opt_version() + programs.opt_prepare() + programs.opt_mix3(),
             dict(pb=2 if q else 3, max_exec=3000 if q else 20000)),
            ('opt', programs.opt_quiesce(), dict(pb=1 if q else 2, max_exec=150 if q else 3000))]


@register('C03')
def check_c03(prop, tier, seed):
    res = lock_abs_check(prop, tier, seed, ['CkOptimistic', 'CkCompat'], opt_plan(tier, seed))
    res['assumptions'] = LOCK_ASSUME + ['SetVersion republishing an earlier value only in the programs that say so']
    return res


@register('C09')
def check_c09(prop, tier, seed):
    q = tier == 'quick'
    plan = opt_plan(tier, seed) + [('opt', programs.guards('opt'), dict(pb=2, max_exec=2000 if q else 10000))]
    res = lock_abs_check(prop, tier, seed, ['CkVersion', 'CkProgress', 'CkCompat'], plan)
    res['assumptions'] = LOCK_ASSUME + ['versions are concrete 32-bit values (compared as 16-bit halves)',
                                        'a version that disturbs the mode bits shows up as a blocked final probe (CkProgress)']
    return res


@register('C13')
def check_c13(prop, tier, seed):
    q = tier == 'quick'
    plan = [('opt', programs.cross2('opt', ('PRV',), ALLOPT, tag='pr2'), dict(pb=2 if q else 3, max_exec=6000 if q else 30000)),
            ('opt', programs.cross3('opt', ('PRV',), ('X', 'DNG', 'XSV', 'UPG', 'DNUP', 'XX'), ('S', 'SIX', 'X', 'PRV')),
             dict(pb=1 if q else 2, max_exec=800 if q else 10000)),
            ('opt', programs.cross3('opt', ('PRV',), ('X', 'XX', 'DNG'), ('S', 'SIX', 'PRV'), tag='pr3b'), dict(pb=2, max_exec=2500 if q else 15000)),
            ('opt', programs.cross3('opt', ('PRV',), ('X', 'XX', 'DNG', 'UPG'), ('S', 'SIX', 'X', 'PRV'), tag='pr3r'),
             dict(mode='random', max_exec=150 if q else 1500)),
            ('opt', programs.opt_quiesce(), dict(pb=1 if q else 2, max_exec=150 if q else 3000)),
            ('opt', [p for p in programs.opt_quiesce() if '_PRV-' in p.split()[1]], dict(pb=2, max_exec=1500 if q else 15000)),
            ('opt', [p.replace('_oq3_', '_oq3r_') for p in programs.opt_quiesce() if '_PRV-' in p.split()[1]], dict(mode='random', max_exec=400 if q else 4000)),
            ('opt', programs.opt_prepare() + programs.opt_mix3(), dict(pb=2 if q else 3, max_exec=3000 if q else 20000))]
    res = lock_abs_check(prop, tier, seed, ['CkPrepare', 'CkOptimistic', 'CkGuards', 'CkProgress', 'CkCompat'], plan)
    res['assumptions'] = LOCK_ASSUME + ['the harness builds the library with CPP_UTILITY_SPINLOCK_RETRY_NUM=1, so PrepareRead makes '
                                        'two optimistic attempts before its locking fallback']
    return res


@register('C11')
def check_c11(prop, tier, seed):
    q = tier == 'quick'
    plan = [('mcs', programs.cross2('mcs'), dict(pb=2 if q else 3, max_exec=3000 if q else 30000)),
            ('mcs', programs.cross3('mcs', MODES3, MODES3, MODES3), dict(pb=2, max_exec=3000 if q else 15000)),
            ('mcs', programs.cross3('mcs', MODES3, MODES3, MODES3, tag='r3m'), dict(mode='random', max_exec=400 if q else 4000)),
            ('mcs', programs.cross3('mcs', CONV, MODES3, MODES3), dict(pb=1 if q else 2, max_exec=600 if q else 10000)),
            ('mcs', programs.cross3('mcs', CONV, MODES3, MODES3, tag='r3c'), dict(mode='random', max_exec=40 if q else 400)),
            ('mcs', programs.twosec('mcs'), dict(pb=2, max_exec=2500 if q else 15000)),
            ('mcs', programs.four('mcs', full=not q), dict(pb=1 if q else 2, max_exec=500 if q else 8000)),
            ('mcs', programs.four('mcs', full=not q), dict(mode='random', max_exec=60 if q else 600)),
            ('mcs', programs.quiesce('mcs'), dict(pb=1 if q else 2, max_exec=100 if q else 3000)),
            ('mcs', programs.five('mcs'), dict(pb=1, max_exec=400 if q else 5000))]
    res = lock_abs_check(prop, tier, seed, ['CkFifo', 'CkCompat'], plan, fifo=True)
    res['assumptions'] = LOCK_ASSUME + ['arrival = the first modification of the lock object inside a Lock* call (derived from the '
                                        'instrumented operation stream)']
    return res


# ------------------------------------------------------------------------------------------------
# C08: happens-before between conflicting critical sections
# ------------------------------------------------------------------------------------------------
HB_FIELDS = ('t', 'loc', 'acq', 'rel', 'sid', 'm', 'lk', 'u')


def norm_hb(e):
    o = {'e': e['e']}
    for k in HB_FIELDS:
        o[k] = e.get(k, '-' if k == 'm' else 0)
    return o


def explore_groups(bdir, plan, workdir, seed, proj, statuses, keep_events=True):
    """explore every plan item, project and de-duplicate per item while reading (raw events are kept for the representative
    of each distinct stream only); returns (groups, number of executions kept, status counts of all executions)"""
    from concurrent.futures import ThreadPoolExecutor

    def run_item(item):
        k, (cls, progs, par) = item
        files = vlib.run_harness(bdir, 'lockh', [cls], progs, workdir, mode=par.get('mode', 'dfs'), pb=par.get('pb', 2),
                                 max_exec=par.get('max_exec', 4000), seed=seed, tag='%s%d' % (cls, k))
        cnt = {}
        groups = vlib.stream_groups(files, proj, keep=lambda ex: ex.status in statuses, keep_events=keep_events, counters=cnt)
        for f in files:
            try:
                os.unlink(f)
            except OSError:
                pass
        return groups, cnt
    glists, counts = [], {}
    with ThreadPoolExecutor(max_workers=6) as pool:
        for groups, cnt in pool.map(run_item, list(enumerate(plan))):
            glists.append(groups)
            for k_, n_ in cnt.items():
                counts[k_] = counts.get(k_, 0) + n_
    return vlib.merge_groups(glists), sum(n_ for k_, n_ in counts.items() if k_ in statuses), counts


def hb_trace_check(prop, tier, seed, plan):
    bdir = vlib.build(4)
    workdir = wdir(prop)
    os.makedirs(workdir, exist_ok=True)
    prog_text = {}
    for cls, progs, par in plan:
        for p in progs:
            prog_text[p.split()[1]] = (cls, p)

    def proj(ex):
        st, ok = vlib.hb_stream(ex, prog_text[ex.prog][1])
        if not ok:
            return [{'e': 'skip'}]
        return [norm_hb(e) for e in st]
    groups, n_execs, _ = explore_groups(bdir, plan, workdir, seed, proj, ('ok', 'stuck'))
    groups = [g for g in groups if g[0] and g[0][0].get('e') != 'skip']
    hists = [g[0] for g in groups]
    reps = [g[1] for g in groups]
    spec = os.path.join(SPEC, 'HBTrace.tla')
    cfg = os.path.join(SPEC, 'cfg', 'HBTrace.cfg')
    rej, st = vlib.validate_until_clean(spec, cfg, hists, workdir, 'hb', max_rounds=3)
    violations = []
    sites = collections.Counter()
    for r in rej[:10]:
        ex = reps[r['hist']]
        h = hists[r['hist']]
        cls, ptext = prog_text[ex.prog]
        bad = h[r['line']] if r['line'] < len(h) else {}
        # the release that failed to publish: last op of the ended conflicting section's thread is in the raw trace;
        # report the memory orders seen at the unlocking / locking sites of this execution
        rel_sites = sorted({'%s %s %s' % (e['site'], e['k'], e['mo']) for e in ex.events if e.get('e') == 'op'})
        fam = ex.prog
        sig = ['cls:' + cls, 'ev:' + str(bad.get('e')), 'mode:' + str(bad.get('m'))]
        violations.append({
            'desc': '%s: in program %s (schedule %s) a %s section of thread %s begins although an ended conflicting section of '
                    'another thread does not happen-before it; memory orders used: %s'
                    % (prop, ex.prog, ex.sched, bad.get('m'), bad.get('t'), '; '.join(rel_sites)),
            'signature': sig,
            'replay': {'kind': 'lock-hb', 'cls': cls, 'program': ptext, 'schedule': ex.sched, 'n': 4},
        })
    mo_table = collections.OrderedDict()
    for ex in reps:
        for e in ex.events:
            if e.get('e') == 'op':
                mo_table[e['site'] + ' ' + e['k'].replace('casf', 'cas(fail)')] = e['mo']
    cov = {
        'states': max(1, st['distinct']), 'transitions': max(1, st['states']),
        'traces_validated_against_impl': n_execs, 'distinct_operation_streams': len(hists),
        'events_validated': st['events'], 'programs': len(prog_text),
        'memory_orders_observed': dict(sorted(mo_table.items())),
        'samples': [{'program': reps[i].prog, 'schedule': reps[i].sched,
                     'stream_head': [{k: v for k, v in e.items() if v not in (0, '-')} for e in hists[i][:16]]}
                    for i in range(0, len(hists), max(1, len(hists) // 2))][:2],
        'rejected_streams': len(rej),
    }
    return {'level': 'model_checking', 'violations': violations, 'coverage': cov,
            'assumptions': LOCK_ASSUME + ['happens-before is derived by the C++20 rules (release sequences continued by RMWs only, '
                                          'fences) from the memory_order arguments logged at run time, over sequentially consistent '
                                          'interleavings; executions in which a load returns a stale value are not explored',
                                          'the final probing thread runs after the others were joined (modelled as sync edges)']}


@register('C08')
def check_c08(prop, tier, seed):
    q = tier == 'quick'
    plan = []
    for cls in ('pess', 'opt', 'mcs'):
        lib = ALLOPT if cls == 'opt' else programs.COMMON_SCRIPTS
        plan.append((cls, programs.cross2(cls, lib), dict(pb=2 if q else 3, max_exec=1500 if q else 20000)))
        plan.append((cls, programs.cross3(cls, CONV + ('X',), MODES3, MODES3), dict(pb=1, max_exec=300 if q else 5000)))
    plan.append(('opt', programs.cross2('opt', ('GTS', 'GTI', 'GTX', 'PRV', 'GTIUP'), ('S', 'SIX', 'UPG', 'XSV0'), tag='rep'),
                 dict(pb=3, max_exec=3000 if q else 20000)))
    return hb_trace_check(prop, tier, seed, plan)


# ------------------------------------------------------------------------------------------------
# generic: explore lock programs, project every execution to an event stream, validate with TLC
# ------------------------------------------------------------------------------------------------
def stream_check(prop, tier, seed, plan, proj, spec_name, cfg_name, describe, statuses=('ok',), max_rounds=3):
    bdir = vlib.build(4)
    workdir = wdir(prop)
    os.makedirs(workdir, exist_ok=True)
    prog_text = {}
    for cls, progs, par in plan:
        for p in progs:
            prog_text[p.split()[1]] = (cls, p)
    groups, n_execs, counts = explore_groups(bdir, plan, workdir, seed, lambda ex: proj(ex, prog_text[ex.prog][1]), statuses)
    groups = [g for g in groups if g[0]]
    hists = [g[0] for g in groups]
    reps = [g[1] for g in groups]
    spec = os.path.join(SPEC, spec_name)
    cfg = os.path.join(SPEC, 'cfg', cfg_name)
    rej, st = vlib.validate_until_clean(spec, cfg, hists, workdir, prop.lower(), max_rounds=max_rounds)
    violations = []
    for r in rej[:10]:
        ex = reps[r['hist']]
        h = hists[r['hist']]
        cls, ptext = prog_text[ex.prog]
        bad = h[r['line']] if r['line'] < len(h) else {'e': 'end-of-stream'}
        desc, sig = describe(ex, h, r['line'], bad)
        violations.append({'desc': '%s: program %s (schedule %s): %s' % (prop, ex.prog, rle(ex.sched), desc),
                           'signature': ['cls:' + cls] + sig,
                           'replay': {'kind': 'lock-stream', 'cls': cls, 'program': ptext, 'schedule': ex.sched, 'n': 4,
                                      'spec': spec_name}})
    cov = {
        'states': max(1, st['distinct']), 'transitions': max(1, st['states']),
        'traces_validated_against_impl': n_execs, 'distinct_streams': len(hists),
        'events_validated': st['events'], 'programs': len(prog_text), 'exec_status': counts,
        'samples': [{'program': reps[i].prog, 'schedule': reps[i].sched, 'stream_head': hists[i][:16]}
                    for i in range(0, len(hists), max(1, len(hists) // 2))][:2],
        'rejected_streams': len(rej), 'unexamined_streams': st.get('unexamined', 0),
    }
    return {'level': 'model_checking', 'violations': violations, 'coverage': cov, 'assumptions': list(LOCK_ASSUME)}


@register('C12')
def check_c12(prop, tier, seed):
    q = tier == 'quick'
    plan = [('mcs', programs.cross2('mcs'), dict(pb=2 if q else 3, max_exec=3000 if q else 30000)),
            ('mcs', programs.cross3('mcs', MODES3, MODES3, MODES3), dict(pb=2, max_exec=1500 if q else 15000)),
            ('mcs', programs.cross3('mcs', CONV, MODES3, MODES3), dict(pb=1 if q else 2, max_exec=600 if q else 10000)),
            ('mcs', programs.twosec('mcs') + programs.twolocks('mcs') + programs.handover('mcs') + programs.guards('mcs'),
             dict(pb=2, max_exec=2500 if q else 15000)),
            ('mcs', programs.twolock_follow('mcs'), dict(pb=2, max_exec=300 if q else 4000)),
            ('mcs', programs.crowd('mcs'), dict(pb=1 if q else 2, max_exec=400 if q else 6000)),
            ('mcs', programs.quiesce('mcs'), dict(pb=1 if q else 2, max_exec=100 if q else 3000)),
            ('mcs', programs.four('mcs', full=not q), dict(pb=1 if q else 2, max_exec=300 if q else 8000)),
            ('mcs', programs.cross3('mcs', MODES3, MODES3, MODES3, tag='r3m'), dict(mode='random', max_exec=200 if q else 2000))]
    if not q:
        plan.append(('mcs', programs.random_programs('mcs', 40, seed), dict(pb=2, max_exec=4000)))

    def describe(ex, h, line, bad):
        k = bad.get('e')
        what = {'acc': 'atomic access to queue node %s which is not alive (freed or recycled)' % bad.get('n'),
                'free': 'queue node %s freed although it is not alive (double free)' % bad.get('n'),
                'alloc': 'allocating %s exceeds the bound live nodes <= running threads + outstanding requests' % bad.get('n'),
                'final': 'queue nodes are still alive after all guards were released and all threads exited (leak)',
                }.get(k, 'unexplained event %s' % bad)
        return what, ['ev:' + str(k)]
    # runs that got stuck or crashed are examined as well (up to that point): a node touched after its release often
    # corrupts the lock and the run never reaches its end
    res = stream_check(prop, tier, seed, plan, lambda ex, ptext: vlib.node_stream(ex), 'NodeTrace.tla', 'NodeTrace.cfg', describe,
                       statuses=('ok', 'stuck', 'crash', 'timeout'))
    res['assumptions'] += ['node = every 8-byte allocation made by a virtual thread through the global operator new (MCSLock queue '
                           'nodes); freed nodes are quarantined by the harness, so a late access is observed, not undefined',
                           'recycling through the per-thread cache is observable only when the cached node is freed (cache '
                           'replacement or thread exit); a node reused from the cache while another thread still holds a reference '
                           'is left to the compatibility/progress checks']
    return res


# ------------------------------------------------------------------------------------------------
# IDManager / EpochManager: programs run by the thread harness (one build per ID capacity)
# ------------------------------------------------------------------------------------------------
def thread_check(prop, tier, seed, plan, proj, spec_name, cfg_path, describe, statuses=('ok', 'stuck'), max_rounds=3,
                 crash_statuses=('crash', 'timeout', 'aborted', 'steplimit'), extra=()):
    """plan: list of (capacity N, [program lines], dict(pb=, max_exec=, mode=))"""
    workdir = wdir(prop)
    os.makedirs(workdir, exist_ok=True)
    prog_text = {}
    builds = {}
    for n, progs, par in plan:
        if n not in builds:
            builds[n] = vlib.build(n)
        for p in progs:
            prog_text[p.split()[1]] = (n, p)
    from concurrent.futures import ThreadPoolExecutor

    def run_item(item):
        k, (n, progs, par) = item
        files = vlib.run_harness(builds[n], 'threadh', [], progs, workdir, mode=par.get('mode', 'dfs'), pb=par.get('pb', 2),
                                 max_exec=par.get('max_exec', 4000), seed=seed, tag='t%d_%d' % (n, k))
        out = []
        for f in files:
            out.extend(vlib.iter_execs(f))
        return out
    allex = []
    with ThreadPoolExecutor(max_workers=6) as pool:
        for ex in pool.map(run_item, list(enumerate(plan))):
            allex.extend(ex)
    execs = [e for e in allex if e.status in statuses or e.status in crash_statuses]
    groups = vlib.dedup_histories(execs, lambda ex: proj(ex, prog_text[ex.prog][1]))
    groups = [g for g in groups if g[0]]
    hists = [g[0] for g in groups]
    reps = [g[1] for g in groups]
    spec = os.path.join(SPEC, spec_name)
    rej, st = vlib.validate_until_clean(spec, cfg_path, hists, workdir, prop.lower(), max_rounds=max_rounds)
    violations = []
    for r in rej[:10]:
        ex = reps[r['hist']]
        h = hists[r['hist']]
        n, ptext = prog_text[ex.prog]
        bad = h[r['line']] if r['line'] < len(h) else {'e': 'end-of-stream'}
        desc, sig = describe(ex, h, r['line'], bad)
        violations.append({'desc': '%s: program %s (capacity %d, schedule %s): %s' % (prop, ex.prog, n, rle(ex.sched), desc),
                           'signature': ['cap:%d' % n] + sig,
                           'replay': {'kind': 'thread', 'program': ptext, 'schedule': ex.sched, 'n': n, 'spec': spec_name}})
    extra_cov = {}
    for xname, xproj, xspec, xcfg, xdescribe in extra:
        # further trace specifications over the same real executions
        xg = [g for g in vlib.dedup_histories([e for e in execs if e.status == 'ok'], lambda ex: xproj(ex, prog_text[ex.prog][1])) if g[0]]
        xh = [g[0] for g in xg]
        xr = [g[1] for g in xg]
        xrej, xst = vlib.validate_until_clean(os.path.join(SPEC, xspec), xcfg, xh, workdir, prop.lower() + xname, max_rounds=2)
        st['distinct'] += xst['distinct']
        st['states'] += xst['states']
        st['events'] += xst['events']
        extra_cov[xname] = {'spec': xspec, 'streams': len(xh), 'events': xst['events'], 'rejected': len(xrej)}
        for r in xrej[:6]:
            ex = xr[r['hist']]
            h = xh[r['hist']]
            n, ptext = prog_text[ex.prog]
            bad = h[r['line']] if r['line'] < len(h) else {'e': 'end-of-stream'}
            desc, sig = xdescribe(ex, h, r['line'], bad)
            violations.append({'desc': '%s: program %s (capacity %d, schedule %s): %s' % (prop, ex.prog, n, rle(ex.sched), desc),
                               'signature': ['cap:%d' % n] + sig,
                               'replay': {'kind': 'thread-x', 'program': ptext, 'schedule': ex.sched, 'n': n, 'spec': xspec, 'x': xname}})
    cov = {
        'states': max(1, st['distinct']), 'transitions': max(1, st['states']),
        'traces_validated_against_impl': len(execs), 'distinct_histories': len(hists),
        'events_validated': st['events'], 'programs': len(prog_text), 'exec_status': status_counts(allex),
        'capacities': sorted(builds), 'further_trace_specs': extra_cov,
        'samples': [{'program': reps[i].prog, 'schedule': reps[i].sched,
                     'history_head': [{k: v for k, v in e.items() if v not in (-1, '-')} for e in hists[i][:16]]}
                    for i in range(0, len(hists), max(1, len(hists) // 2))][:2],
        'rejected_histories': len(rej), 'unexamined_histories': st.get('unexamined', 0),
    }
    return {'level': 'model_checking', 'violations': violations, 'coverage': cov, 'assumptions': []}


ID_FIELDS = ('t', 'id', 'stale', 'k', 'x', 'owner', 'cap')


def id_history(ex, ptext=None):
    out = []
    for e in ex.events:
        k = e.get('e')
        if k in ('cfg', 'idcall', 'id', 'hbget', 'exp', 'tend', 'texit', 'bar', 'stuck'):
            o = {'e': k}
            for f in ID_FIELDS:
                o[f] = e.get(f, -1)
            out.append(o)
    if ex.status in ('crash', 'timeout', 'aborted', 'steplimit'):
        o = {'e': 'stuck'}
        for f in ID_FIELDS:
            o[f] = -1
        out.append(o)
    return out


def id_programs(n, tier):
    """ID claims, repeated calls, heartbeats, thread exits and re-claims; hash = probe start chosen by the harness"""
    out = []
    q = tier == 'quick'
    final = ' || ' + ' | '.join('ID BAR:1:%d' % n for _ in range(n))     # all N IDs must be obtainable again
    def thr(k, others):
        return 'ID HB:%d ID %s' % (k, ' '.join('EXP:%d' % o for o in others))
    # N+1 threads, full collision (all hashes equal), every thread looks at the heartbeats of the others
    for m in (n + 1, n + 2):
        if q and m > n + 1 and n > 1:
            continue
        if m > 5:
            continue
        ths = [thr(k, [o for o in range(1, m + 1) if o != k]) for k in range(1, m + 1)]
        out.append('P id%d_collide_%d cap=%d hash=%s | %s%s' % (n, m, n, ','.join(['0'] * m), ' | '.join(ths), final))
    # distinct probe starts including wrap-around
    m = min(n + 1, 4)
    ths = [thr(k, [o for o in range(1, m + 1) if o != k]) for k in range(1, m + 1)]
    out.append('P id%d_spread cap=%d hash=%s | %s%s' % (n, n, ','.join(str((n - 1 + k) % n) for k in range(m)), ' | '.join(ths), final))
    # generations: threads exit, later threads re-claim and check every earlier heartbeat
    g1 = ' | '.join('ID HB:%d' % k for k in range(1, n + 1))
    g2 = ' | '.join('ID HB:%d %s' % (n + k, ' '.join('EXP:%d' % o for o in range(1, n + 1))) for k in range(1, n + 1))
    out.append('P id%d_generations cap=%d hash=%s | %s || %s%s' % (n, n, ','.join(['0'] * (2 * n)), g1, g2, final))
    # stability: a thread asks again while a client holds a locked (strong) reference to its heartbeat
    out.append('P id%d_pinned cap=%d hash=0,0 | ID HB:1 BAR:1:2 BAR:2:2 ID BAR:3:2 BAR:4:2 EXP:1 ID | '
               'BAR:1:2 HBL:1 BAR:2:2 %sBAR:3:2 HBU:1 BAR:4:2 EXP:1%s' % (n, n, 'ID ' if n > 2 else '', final))
    if n <= 2:
        # more threads than IDs, every holder waits for all of them: the run stops with the late comer still asking - it must keep
        # asking (a bounded probe loop that gives up and takes a slot it never reserved shows up as a second owner)
        out.append('P id%d_over cap=%d hash=%s | %s' % (n, n, ','.join(['0'] * (n + 1)), ' | '.join('ID BAR:1:%d ID' % (n + 1) for _ in range(n + 1))))
    if n == 1:
        # a client pins the heartbeat of a thread beyond its exit, the ID is reused, the pin is dropped while the new owner runs,
        # a further thread asks: it must wait for the owner to exit
        out.append('P id1_pin_reuse cap=1 hash=0,0,0,0 | ID HB:1 | WAITHB:1 HBL:1 BAR:1:2 BAR:2:2 HBU:1 BAR:3:3 | '
                   'BAR:1:2 ID BAR:2:2 BAR:3:3 ID EXP:1 | BAR:3:3 ID%s' % final)
    return out


def id_plan(tier, caps=None):
    q = tier == 'quick'
    plan = []
    for n in (caps or ((1, 2) if q else (1, 2, 3))):
        plan.append((n, id_programs(n, tier), dict(pb=2 if q else 3, max_exec=(1500 if n < 3 else 800) if q else 25000)))
        # schedules with many preemptions (a thread that loses two claim races in a row, ...) are out of reach of the
        # preemption-bounded search: seeded random schedules of the same programs complement it
        plan.append((n, id_programs(n, tier), dict(mode='random', max_exec=(800 if n == 1 else 300 if n == 2 else 150) if q else 12000)))
    return plan


def id_locked_hb_programs(n):
    """a client holds a locked (strong) reference to another thread's heartbeat while that thread exits; all IDs must
    still be obtainable afterwards"""
    gen = ' | '.join('ID BAR:1:%d' % n for _ in range(n))
    return ['P id%d_lockedhb cap=%d hash=%s | ID HB:1 | WAITHB:1 HBL:1 || %s || HBU:1' % (n, n, ','.join(['0'] * (n + 3)), gen)]


def id_cfg(switches, prop):
    workdir = wdir(prop)
    os.makedirs(workdir, exist_ok=True)
    sub = {k: ('TRUE' if k in switches else 'FALSE') for k in ('CkUnique', 'CkCapacity', 'CkHeartbeat')}
    return vlib.write_cfg(os.path.join(SPEC, 'cfg', 'IdAbsTrace.tpl.cfg'), sub, os.path.join(workdir, 'id.cfg'))


def id_describe(ex, h, line, bad):
    k = bad.get('e')
    if k == 'id':
        d = 'GetThreadID returned %s to thread %s (stale heartbeats of earlier owners: %s)' % (bad.get('id'), bad.get('t'), bad.get('stale'))
    elif k == 'exp':
        d = 'heartbeat of thread %s reports expired=%s' % (bad.get('owner'), bad.get('x'))
    elif k == 'stuck':
        d = 'the run stopped: a GetThreadID call never returns although an ID is free (status %s)' % ex.status
    else:
        d = 'unexplained event %s' % {a: b for a, b in bad.items() if b != -1}
    return d, ['ev:' + str(k), 'status:' + ex.status]


ID_ASSUME = ['IDs are observed through GetThreadID return values only; the probe start (thread hash) is chosen by the harness through '
             'the guarded ThreadHash hook',
             'thread exit runs under the scheduler with a scheduling point between heartbeat expiry and ID release (guarded hook)',
             'capacities 1-3, up to capacity+2 threads; preemption-bounded DFS']


@register('C05')
def check_c05(prop, tier, seed):
    res = thread_check(prop, tier, seed, id_plan(tier), id_history, 'IdAbsTrace.tla', id_cfg(['CkUnique'], prop), id_describe)
    res['assumptions'] = ID_ASSUME
    return res


@register('C14')
def check_c14(prop, tier, seed):
    plan = id_plan(tier, caps=(1, 2, 3))      # a non-power-of-two capacity is part of every run
    for n in (1, 2):
        plan.append((n, id_locked_hb_programs(n), dict(pb=2, max_exec=1500)))
    res = thread_check(prop, tier, seed, plan, id_history, 'IdAbsTrace.tla', id_cfg(['CkCapacity'], prop), id_describe)
    res['assumptions'] = ID_ASSUME + ['every program ends with a generation of capacity-many threads that must all hold an ID at the '
                                      'same time (barrier): a lost ID shows up as a GetThreadID call that never returns']
    return res


@register('C15')
def check_c15(prop, tier, seed):
    q = tier == 'quick'
    plan = id_plan(tier)
    # the same with an EpochManager in use: a worker exits and its ID is reused while the coordinator is forwarding
    plan.append((2, [ep_prog('id2_epoch_reuse_a', 2, ['ID HB:1 G D', 'ID HB:2 EXP:1 G D', 'F F F'], hashes=[0, 0, 1]),
                     ep_prog('id2_epoch_reuse_b', 2, ['ID HB:1 G D', 'F F', 'ID HB:2 EXP:1'], hashes=[1, 0, 1])],
                 dict(pb=2 if q else 3, max_exec=5000 if q else 50000)))
    res = thread_check(prop, tier, seed, plan, id_history, 'IdAbsTrace.tla', id_cfg(['CkHeartbeat'], prop), id_describe)
    res['assumptions'] = ID_ASSUME + ['the harness keeps a copy of every heartbeat handed out and evaluates expired() of all earlier '
                                      "owners' heartbeats at the moment GetThreadID returns an ID"]
    return res


# ------------------------------------------------------------------------------------------------
# EpochManager (C04, C16, C17, C20)
# ------------------------------------------------------------------------------------------------
EP_FIELDS = ('t', 'ep', 'cur', 'min', 'v', 'haslist', 'pn', 'ecap')
EP_EVENTS = ('cfg', 'gcall', 'gret', 'gmove', 'relist', 'uaf', 'dcall', 'dret', 'fcall', 'fdone', 'fobs', 'cur', 'min', 'mgrdead',
             'tend', 'texit')


def epoch_history(ex, ptext=None):
    out = []
    for e in ex.events:
        k = e.get('e')
        if k in EP_EVENTS:
            o = {'e': k, 'list': e.get('list', [])}
            for f in EP_FIELDS:
                o[f] = e.get(f, -1)
            out.append(o)
    if ex.status != 'ok':
        o = {'e': 'stuck', 'list': []}
        for f in EP_FIELDS:
            o[f] = -1
        out.append(o)
    return out


def epoch_cfg(switches, prop):
    workdir = wdir(prop)
    os.makedirs(workdir, exist_ok=True)
    sub = {k: ('TRUE' if k in switches else 'FALSE') for k in ('CkPin', 'CkMono', 'CkList', 'CkSeq')}
    return vlib.write_cfg(os.path.join(SPEC, 'cfg', 'EpochAbsTrace.tpl.cfg'), sub, os.path.join(workdir, 'epoch.cfg'))


def epoch_describe(ex, h, line, bad):
    k = bad.get('e')
    info = {a: b for a, b in bad.items() if b not in (-1, [])}
    if k == 'fobs':
        d = 'after ForwardGlobalEpoch the coordinator observed current=%s min=%s list=%s, which the abstract epoch manager does not allow here' % (bad.get('cur'), bad.get('min'), bad.get('list'))
    elif k == 'uaf':
        d = 'a guard holder reached a protected-list node that had been freed'
    elif k == 'gret':
        d = 'guard creation returned epoch %s with list %s' % (bad.get('ep'), bad.get('list'))
    elif k == 'relist':
        d = 'the list of a live guard changed to %s' % (bad.get('list'),)
    elif k == 'stuck':
        d = 'the execution did not complete (status %s)' % ex.status
    else:
        d = 'unexplained event %s' % info
    # signature of the known finding D6: the guard creation (gcall .. gret) that precedes the rejected event overlaps at
    # least two different ForwardGlobalEpoch calls AND a list node was retired while it was in progress (the worker was
    # stalled between reading the global epoch and holding its list while the coordinator moved past its 256-range)
    sig = ['ev:' + str(k), 'status:' + ex.status]
    t_bad = bad.get('t', -1)
    active = False
    inside = False
    overlap = retired = 0
    best = (0, 0)
    seen = 0
    for e in ex.events:
        ek = e.get('e')
        if ek in EP_EVENTS:
            if seen > line:
                break
            seen += 1
        if ek == 'fcall':
            active = True
            if inside:
                overlap += 1
        elif ek == 'fdone':
            active = False
        elif ek == 'gcall' and e.get('t') == t_bad:
            inside = True
            overlap = 1 if active else 0
            retired = 0
        elif ek == 'gret' and e.get('t') == t_bad:
            inside = False
            best = (overlap, retired)
        elif ek == 'free' and e.get('cls') == 'PN' and inside:
            retired += 1
    if inside:
        best = (overlap, retired)
    if best[0] >= 2 and best[1] >= 1:
        sig.append('guard-creation-overlaps>=2-forwards+node-retired')
    return d, sig


def ep_prog(name, n, threads, params='', hashes=None):
    hp = ' hash=%s' % ','.join(str(x) for x in hashes) if hashes else ''
    return 'P %s cap=%d epoch%s%s | %s' % (name, n, hp, (' ' + params) if params else '', ' | '.join(threads))


def epoch_programs(tier, which, seed=0):
    q = tier == 'quick'
    plan = []
    if 'pin' in which:
        progs = [ep_prog('ep_pin_a', 3, ['G CUR D G D', 'G D', 'F F F']),
                 ep_prog('ep_pin_b', 3, ['G MIN CUR D', 'GL RL D', 'F F']),
                 ep_prog('ep_pin_c', 3, ['G D G D', 'G D', 'F F F F'], hashes=[0, 0, 0]),
                 # guard creation stalled across forwards, then held while further forwards run
                 ep_prog('ep_pin_d', 3, ['G CUR BAR:1:2 D', 'F F F BAR:1:2 F']),
                 ep_prog('ep_pin_e', 3, ['G BAR:1:3 D', 'G BAR:1:3 D', 'F F BAR:1:3 F']),
                 # a guard that is moved (move construction + move assignment) keeps its pin
                 ep_prog('ep_pin_mv', 3, ['G MV CUR D', 'GL MV RL D', 'F F F'])]
        plan.append((3, progs, dict(pb=2 if q else 3, max_exec=5000 if q else 30000)))
        # ID reuse: two workers compete for the single worker slot of a capacity-2 manager
        progs = [ep_prog('ep_reuse_a', 2, ['G D', 'G CUR D', 'F F F'], hashes=[0, 0, 1]),
                 ep_prog('ep_reuse_b', 2, ['G D', 'G D', 'F F'], hashes=[1, 1, 1]),
                 ep_prog('ep_reuse_c', 2, ['F F F', 'G D', 'GL RL D'], hashes=[0, 1, 1])]
        plan.append((2, progs, dict(pb=2 if q else 3, max_exec=6000 if q else 30000)))
        plan.append((2, [ep_prog('ep_reuse_pin', 2, ['G D', 'BAR:1:2 G BAR:2:2 BAR:3:2 CUR D', 'F BAR:1:2 BAR:2:2 F F F BAR:3:2 F'], hashes=[0, 0, 1])],
                     dict(pb=1, max_exec=60 if q else 600)))
    if 'mono' in which:
        progs = [ep_prog('ep_mono_a', 3, ['CUR MIN G CUR D MIN CUR', 'G D', 'F F F || F || CUR MIN']),
                 ep_prog('ep_mono_b', 3, ['MIN CUR MIN CUR', 'CUR G D', 'F F']),
                 ep_prog('ep_mono_c', 3, ['G CUR GR CUR G GR', 'G D', 'F F F || F F || CUR MIN'])]
        plan.append((3, progs, dict(pb=2 if q else 3, max_exec=5000 if q else 30000)))
        plan.append((3, [ep_prog('ep_cross_a', 3, ['CUR G CUR D MIN', 'G D', 'FQ:254 F F F'])], dict(pb=1, max_exec=60 if q else 400)))
        # many quiescent forwards (every one is observed: min = cur - 1), far enough for retired list nodes to be replaced several times
        plan.append((3, [ep_prog('ep_long_quiet', 3, ['G D', 'F FQ:%d F F' % (1100 if q else 2600)])], dict(pb=0, max_exec=1)))
        # guard objects handed from one thread to another: overwriting a live guard releases its pin, the handed-over pin
        # stays until that guard is destroyed; once everything is destroyed (threads still alive) a forward is quiescent
        progs = [ep_prog('ep_hand_a', 3, ['G GIVE:1 BAR:8:3 BAR:9:3', 'G TAKE:1 CUR D BAR:8:3 BAR:9:3', 'F BAR:8:3 F F BAR:9:3']),
                 ep_prog('ep_hand_b', 3, ['G GIVE:1 BAR:8:3 BAR:9:3', 'TAKE:1 MV D BAR:8:3 BAR:9:3', 'F F BAR:8:3 F F BAR:9:3'])]
        plan.append((3, progs, dict(pb=2 if q else 3, max_exec=1500 if q else 10000)))
    if 'rand' in which:
        rp = conc_epoch_programs(10 if q else 80, seed)
        for cap in (2, 3):
            ps = [p for c, p in rp if c == cap]
            if ps:
                plan.append((cap, ps, dict(pb=1 if q else 2, max_exec=150 if q else 3000)))
                plan.append((cap, ps, dict(mode='random', max_exec=60 if q else 600)))
    if 'list' in which:
        progs = [ep_prog('ep_list_a', 3, ['GL RL D GL RL D', 'G D', 'F F F']),
                 ep_prog('ep_list_b', 3, ['GL RL RL D', 'GL RL D', 'F F'])]
        plan.append((3, progs, dict(pb=2 if q else 3, max_exec=5000 if q else 30000)))
        # a worker stalled at any of its steps while the coordinator creates and retires 256-epoch list nodes
        # (the oldest list node is never retired, so the stalled epoch must lie in a younger node: forward past 512 first)
        plan.append((3, [ep_prog('ep_stall_a', 3, ['BAR:1:2 GL RL D', 'FQ:270 BAR:1:2 FQ:520 F']),
                         ep_prog('ep_stall_b', 3, ['BAR:1:2 G D GL RL D', 'FQ:300 BAR:1:2 FQ:300 F FQ:300 F'])],
                     dict(pb=1 if q else 2, max_exec=60 if q else 600)))
        plan.append((3, [ep_prog('ep_cross_b', 3, ['GL RL D GL RL D', 'FQ:253 F F F F'])], dict(pb=1, max_exec=60 if q else 400)))
        # ID reuse: a second worker takes over the slot of an exited one and holds a list across a node boundary
        plan.append((2, [ep_prog('ep_reuse_edge', 2, ['G D', 'BAR:1:2 GL RL RL D', 'FQ:510 BAR:1:2 F F F'], hashes=[0, 0, 1])],
                     dict(pb=1 if q else 2, max_exec=60 if q else 600)))
        # ... and without any preemption: the second worker takes its list, then the coordinator crosses the boundary, then the list is read again
        plan.append((2, [ep_prog('ep_reuse_hold', 2, ['G D', 'BAR:1:2 GL RL BAR:2:2 BAR:3:2 RL D', 'FQ:510 BAR:1:2 BAR:2:2 F F F BAR:3:2 F'],
                                 hashes=[0, 0, 1])], dict(pb=1, max_exec=40 if q else 400)))
        plan.append((3, [ep_prog('ep_hold_a', 3, ['GL RL BAR:2:3 BAR:3:3 RL D', 'G BAR:2:3 BAR:3:3 D', 'BAR:2:3 FQ:300 F F BAR:3:3 F'])],
                     dict(pb=1, max_exec=40 if q else 400)))
        # the same race at a node boundary: the worker reads epoch 767 (last of its range), two forwards follow
        plan.append((3, [ep_prog('ep_edge_a', 3, ['BAR:1:2 GL RL D', 'FQ:511 BAR:1:2 F F F'])], dict(pb=2, max_exec=150 if q else 1500)))
    return plan


def epoch_hb_stream(ex, ptext=None):
    """Operation stream of an epoch-manager execution for the happens-before monitor HBTrace: the coordinator's writes of
    the list of epoch e (between reading the global epoch and publishing e) are an exclusive section on pseudo-lock e,
    a guard holder's use of the list it was handed is a shared section on e."""
    out = []
    locs = {}
    sid = [0]
    wsec = {}       # coordinator thread -> (sid, epoch) of the open write section
    rsec = {}       # worker thread -> (sid, epoch)
    in_fwd = {}
    for e in ex.events:
        k = e.get('e')
        t = e.get('t', 0)
        if t <= 0:
            continue
        if k == 'fcall':
            in_fwd[t] = True
        elif k == 'fdone':
            in_fwd[t] = False
        elif k == 'op':
            kind = e['k']
            if kind == 'fence':
                out.append({'e': 'fence', 't': t, 'loc': 0, 'acq': int(e['mo'] in vlib.ACQ), 'rel': int(e['mo'] in vlib.REL)})
                continue
            loc = locs.setdefault(e['loc'], len(locs) + 1)
            mo = e['mo']
            site = e.get('site', '')
            is_pub = in_fwd.get(t) and kind == 'store' and e['loc'] == 'EM'
            is_leave = kind == 'store' and site.startswith('epoch.cpp') and e['a'] == 'ffffffffffffffff'
            if is_pub and t in wsec:
                s0, ep = wsec.pop(t)
                out.append({'e': 'end', 't': t, 'sid': s0, 'm': 'X', 'lk': ep})
            if is_leave and t in rsec:
                s0, ep = rsec.pop(t)
                out.append({'e': 'end', 't': t, 'sid': s0, 'm': 'S', 'lk': ep})
            if kind in ('load', 'casf'):
                out.append({'e': 'ld', 't': t, 'loc': loc, 'acq': int(mo in vlib.ACQ), 'rel': 0})
            elif kind == 'store':
                out.append({'e': 'st', 't': t, 'loc': loc, 'acq': 0, 'rel': int(mo in vlib.REL)})
            else:
                out.append({'e': 'rmw', 't': t, 'loc': loc, 'acq': int(mo in vlib.ACQ), 'rel': int(mo in vlib.REL)})
            if in_fwd.get(t) and kind == 'load' and e['loc'] == 'EM' and site.startswith('epoch_manager.cpp') and t not in wsec:
                sid[0] += 1
                wsec[t] = (sid[0], int(e['a'], 16) + 1)
                out.append({'e': 'begin', 't': t, 'sid': sid[0], 'm': 'X', 'lk': wsec[t][1]})
        elif k == 'gret' and e.get('haslist') == 1 and t not in rsec:
            sid[0] += 1
            rsec[t] = (sid[0], e['ep'])
            out.append({'e': 'begin', 't': t, 'sid': sid[0], 'm': 'S', 'lk': e['ep']})
    if len(locs) > 10 or not out:
        return []
    return [norm_hb(x) for x in out]


def epoch_hb_describe(ex, h, line, bad):
    return ('a guard holder of thread %s starts using the protected-epoch list of epoch %s although the coordinator\'s writes of that '
            'list do not happen-before it (memory orders used: %s)'
            % (bad.get('t'), bad.get('lk'), '; '.join(sorted({'%s %s %s' % (e['site'], e['k'], e['mo']) for e in ex.events
                                                               if e.get('e') == 'op' and e.get('cls') == 'epoch' and e['k'] != 'load' or
                                                               (e.get('e') == 'op' and e.get('site', '').startswith('epoch.cpp:') and e['loc'] == 'EM')}))),
            ['ev:hb-' + str(bad.get('e')), 'status:' + ex.status])


def conc_epoch_programs(n_prog, seed, tag='r'):
    """seeded random concurrent programs: two workers (a third generation reuses their IDs) create / move / read / drop guards
    and read the counters while the coordinator forwards a few times (never far enough to retire a list node)"""
    import random
    rnd = random.Random(seed * 7919 + 13)
    out = []
    for k in range(n_prog):
        ths = []
        for w in range(2):
            ops = []
            has = False
            for _ in range(rnd.randint(2, 5)):
                if has:
                    op = rnd.choice(('D', 'D', 'RL', 'MV', 'CUR', 'MIN', 'GR'))
                    if op in ('D', 'GR'):
                        has = False
                else:
                    op = rnd.choice(('G', 'GL', 'GL', 'CUR', 'MIN'))
                    if op in ('G', 'GL'):
                        has = True
                ops.append(op)
            if has:
                ops.append('D')
            ths.append(' '.join(ops))
        coord = ' '.join(rnd.choice(('F', 'F', 'F F', 'FQ:3 F', 'CUR', 'MIN')) for _ in range(rnd.randint(2, 4)))
        cap = rnd.choice((2, 3))
        hashes = [0, 0, 1] if cap == 2 else [rnd.randrange(3) for _ in range(3)]
        late = ' || ' + rnd.choice(('G CUR D', 'GL RL D', 'G MV D')) + ' | F F' if rnd.random() < 0.5 else ''
        out.append((cap, ep_prog('ep_%s%d_%d' % (tag, seed, k), cap, ths + [coord + late], hashes=hashes)))
    return out


EPOCH_ASSUME = ['one coordinator thread; at most one guard per thread at a time (the library keeps one Epoch per thread)',
                'worker and coordinator threads are real OS threads under the baton scheduler; scheduling points at every atomic '
                'operation and at the guarded hooks (heartbeat re-binding, slot scan, list-node retirement, list walk hops)',
                'list-node capacity is the compiled 256; node boundaries are crossed with bulk forwards that are not branching points',
                'sequentially consistent interleavings; the plain (non-atomic) accesses of the manager are not reordered']


@register('C04')
def check_c04(prop, tier, seed):
    res = thread_check(prop, tier, seed, epoch_programs(tier, ('pin', 'rand'), seed), epoch_history, 'EpochAbsTrace.tla',
                       epoch_cfg(['CkPin'], prop), epoch_describe, statuses=('ok', 'stuck'))
    res['assumptions'] = EPOCH_ASSUME
    return res


@register('C16')
def check_c16(prop, tier, seed):
    res = thread_check(prop, tier, seed, epoch_programs(tier, ('mono', 'pin', 'rand'), seed), epoch_history, 'EpochAbsTrace.tla',
                       epoch_cfg(['CkMono'], prop), epoch_describe, statuses=('ok', 'stuck'))
    res['assumptions'] = EPOCH_ASSUME
    return res


@register('C17')
def check_c17(prop, tier, seed):
    res = thread_check(prop, tier, seed, epoch_programs(tier, ('list', 'rand'), seed), epoch_history, 'EpochAbsTrace.tla',
                       epoch_cfg(['CkList'], prop), epoch_describe, statuses=('ok', 'stuck'),
                       extra=[('pubhb', epoch_hb_stream, 'HBTrace.tla', os.path.join(SPEC, 'cfg', 'HBTrace.cfg'), epoch_hb_describe)])
    res['assumptions'] = EPOCH_ASSUME + ['publication of a list (written once, before its epoch becomes current) is checked for '
                                         'happens-before with the lock-agnostic monitor HBTrace over the memory orders passed at run '
                                         'time: the coordinator\'s writes of the list of epoch e must happen-before a guard holder\'s use of it']
    return res


def seq_epoch_programs(n_prog, seed, workers=3, steps=28, max_forwards=2600):
    """sequential histories: exactly one thread is enabled at any time (TURN/NEXT hand-shake); guards pinned across
    many 256-epoch node boundaries, released in varying order"""
    import random
    rnd = random.Random(seed)
    out = []
    for k in range(n_prog):
        ths = [[] for _ in range(workers + 1)]     # last = coordinator
        has = [False] * workers
        turn = 0
        fw = 0

        def emit(t, ops):
            nonlocal turn
            ths[t].append('TURN:%d %s NEXT' % (turn, ops))
            turn += 1
        style = rnd.choice(('short', 'long', 'mixed'))
        for _ in range(steps):
            r = rnd.random()
            if r < 0.45:
                if style == 'short':
                    n = rnd.choice((0, 0, 1, 2, 5))
                elif style == 'long':
                    n = rnd.choice((100, 255, 256, 257, 300, 511))
                else:
                    n = rnd.choice((0, 1, 3, 60, 254, 255, 256, 258, 400))
                if fw + n + 1 > max_forwards:
                    n = 0
                fw += n + 1
                emit(workers, ('FQ:%d ' % n if n else '') + 'F')
            else:
                w = rnd.randrange(workers)
                if has[w]:
                    if rnd.random() < 0.6:
                        emit(w, 'RL D' if rnd.random() < 0.5 else 'D')
                        has[w] = False
                    else:
                        emit(w, rnd.choice(('RL', 'CUR', 'MIN', 'MV')))
                else:
                    emit(w, rnd.choice(('G', 'GL', 'GL RL')))
                    has[w] = True
        for w in range(workers):
            if has[w]:
                emit(w, 'D')
        emit(workers, 'F')
        emit(workers, 'F')
        out.append(ep_prog('ep_seq%d_%d' % (seed, k), workers + 1, [' '.join(t) if t else 'CUR' for t in ths]))
    return out


@register('C20')
def check_c20(prop, tier, seed):
    q = tier == 'quick'
    plan = [(4, seq_epoch_programs(16 if q else 120, seed * 7 + 1), dict(pb=0, max_exec=2)),
            (3, seq_epoch_programs(8 if q else 60, seed * 7 + 2, workers=2, steps=20), dict(pb=0, max_exec=2))]
    plan.append((3, [ep_prog('ep_seq_two_nodes', 3, ['TURN:1 G NEXT TURN:5 D NEXT', 'TURN:3 GL NEXT TURN:6 RL D NEXT',
                                                       'TURN:0 FQ:340 F NEXT TURN:2 FQ:200 F NEXT TURN:4 FQ:300 F NEXT TURN:7 F F FQ:300 F NEXT']),
                     ep_prog('ep_seq_boundary', 3, ['TURN:1 G NEXT TURN:3 D NEXT', 'TURN:5 G NEXT TURN:7 D NEXT',
                                                      'TURN:0 FQ:300 F NEXT TURN:2 FQ:466 F NEXT TURN:4 F F NEXT TURN:6 FQ:250 F F NEXT TURN:8 F FQ:520 F NEXT'])],
                 dict(pb=0, max_exec=2)))
    # sequential, with thread generations on a capacity-2 manager: the second generation reuses the IDs (and slots) of the first
    plan.append((2, [ep_prog('ep_seq_reuse', 2, ['TURN:0 G NEXT TURN:2 D NEXT', 'TURN:1 F NEXT TURN:3 F NEXT || TURN:4 GL NEXT TURN:6 RL D NEXT | '
                                                 'TURN:5 F F NEXT TURN:7 F NEXT || TURN:8 G NEXT TURN:10 D NEXT | TURN:9 FQ:300 F NEXT TURN:11 F NEXT'],
                             hashes=[0, 1, 0, 1, 1, 0])], dict(pb=0, max_exec=2)))
    res = thread_check(prop, tier, seed, plan, epoch_history, 'EpochAbsTrace.tla', epoch_cfg(['CkSeq', 'CkMono'], prop),
                       epoch_describe, statuses=('ok', 'stuck'))
    res['assumptions'] = EPOCH_ASSUME + ['sequential histories: a TURN/NEXT hand-shake in the harness lets exactly one thread run at a '
                                         'time; histories are generated from VERIF_SEED',
                                         'list nodes = over-aligned allocations counted through the replaced operator new/delete']
    return res


# ------------------------------------------------------------------------------------------------
# Zipf generators (C06, C19)
# ------------------------------------------------------------------------------------------------
def run_zipf(mode, tier, seed, workdir, timeout=900):
    import subprocess
    bdir = vlib.build(4)
    os.makedirs(workdir, exist_ok=True)
    o = os.path.join(workdir, mode + '.raw.ndjson')
    if os.path.exists(o):
        os.unlink(o)
    try:
        rc, out = vlib.sh([os.path.join(bdir, 'zipfh'), mode, '--seed', str(seed), '--tier', tier, '--out', o], timeout=timeout)
    except subprocess.TimeoutExpired:
        rc, out = 124, 'timed out after %ds' % timeout
    recs = []
    crashed = rc != 0
    if os.path.exists(o):
        with open(o, errors='replace') as f:
            for line in f:
                try:
                    recs.append(json.loads(line))
                except ValueError:
                    crashed = True
    return recs, crashed, out


@register('C06')
def check_c06(prop, tier, seed):
    q = tier == 'quick'
    workdir = wdir(prop)
    os.makedirs(workdir, exist_ok=True)
    # (M) the sampling algorithm on every order type of table and variate up to MaxN bins
    cfg = vlib.write_cfg(os.path.join(SPEC, 'cfg', 'ZipfSearch.tpl.cfg'), {'MaxN': 6 if q else 7, 'K': 6 if q else 7},
                         os.path.join(workdir, 'search.cfg'))
    m = vlib.run_tlc(os.path.join(SPEC, 'ZipfSearch.tla'), cfg, 'zipfsearch', workers=8, heap='6g', timeout=1500)
    violations = []
    notes = []
    if not m['ok']:
        if m['violated']:
            notes.append('ZipfSearch model: %s violated - the specification of the search itself is wrong or the property does not '
                         'hold for the algorithm as modelled' % m['violated'])
            violations.append({'desc': 'C06: TLC found an order type on which the modelled search violates %s' % m['violated'],
                               'signature': ['model', str(m['violated'])], 'replay': {'kind': 'tlc', 'spec': 'ZipfSearch.tla'}})
        else:
            raise InfraError('ZipfSearch did not run: ' + m['out'][-2000:])
    # (T) real samples
    recs, crashed, out = run_zipf('c06', tier, seed, workdir)
    full = {}
    hists_keyed = {}
    for r in recs:
        if r['e'] == 's':
            o = {'e': 's', 'cls': r['cls'], 'n': r['n'], 'i': r['i'], 'inr': r['inr'], 'lo': r['lo'], 'hi': r['hi'],
                 'tab': r['tab'], 'ru': r['ru']}
        else:
            o = {'e': 'dflt', 'cls': '-', 'n': 0, 'i': 0, 'inr': 1, 'lo': 1, 'hi': 1, 'tab': [], 'ru': 0, 'zero': r['zero']}
        o.setdefault('zero', 1)
        key = json.dumps(o, sort_keys=True)
        if key not in hists_keyed:
            hists_keyed[key] = o
            full[key] = r
    keys = list(hists_keyed)
    # groups of 400 records per "history" so that chunks can be cut anywhere
    hists = [[hists_keyed[k] for k in keys[i:i + 400]] for i in range(0, len(keys), 400)]
    rej, st = vlib.validate_until_clean(os.path.join(SPEC, 'ZipfTrace.tla'), os.path.join(SPEC, 'cfg', 'ZipfTrace.cfg'), hists,
                                        workdir, 'zt', max_rounds=2)
    for r in rej[:8]:
        idx = r['hist'] * 400 + r['line']
        bad = full[keys[idx]] if idx < len(keys) else {}
        sig = ['cls:' + str(bad.get('cls')), 'kind:' + str(bad.get('kind')), 'inr:%s' % bad.get('inr'), 'lo:%s hi:%s' % (bad.get('lo'), bad.get('hi'))]
        violations.append({'desc': 'C06: %s<%s>(min=%s,max=%s,alpha=%s) on engine output %s returned %s: in-range=%s, lower bound=%s, '
                                   'upper bound=%s, table ranks=%s, variate rank=%s'
                                   % ({'Z': 'ZipfDistribution', 'A': 'ApproxZipfDistribution'}.get(bad.get('cls'), '?'), bad.get('ty'),
                                      bad.get('min'), bad.get('max'), bad.get('alpha'), bad.get('x'), bad.get('v'), bad.get('inr'),
                                      bad.get('lo'), bad.get('hi'), bad.get('tab'), bad.get('ru')),
                           'signature': sig, 'replay': {'kind': 'zipf', 'record': bad}})
    if crashed:
        violations.append({'desc': 'C06: the sampling driver crashed or threw: ' + out[-300:], 'signature': ['crash'],
                           'replay': {'kind': 'zipf', 'seed': seed, 'tier': tier}})
    kinds = collections.Counter(r.get('kind', 'dflt') for r in recs)
    cov = {'states': max(1, m['distinct'] + st['distinct']), 'transitions': max(1, m['states'] + st['states']),
           'traces_validated_against_impl': len(recs), 'distinct_records': len(keys),
           'model_states_ZipfSearch': m['distinct'], 'model_exhaustive_up_to_bins': 6 if q else 7,
           'records_with_full_table': sum(1 for k in keys if hists_keyed[k]['tab']),
           'sample_kinds': dict(kinds), 'exhaustive': False,
           'samples': [full[keys[i]] for i in range(0, len(keys), max(1, len(keys) // 3))][:3],
           'rejected_records': len(rej)}
    return {'level': 'model_checking', 'violations': violations, 'coverage': cov, 'notes': notes,
            'assumptions': ['the variate u is recomputed by the harness from a copy of the engine with the same '
                            'std::uniform_real_distribution<double>; engine outputs are crafted so that u lands on, one ulp below and '
                            'one ulp above CDF breakpoints',
                            'the search is comparison-only: for a given number of bins its behaviour depends on the order type of '
                            '(table, variate) only, which TLC enumerates completely up to the stated number of bins',
                            'nothing is decided about the numeric values of the CDF (C18)']}


@register('C19')
def check_c19(prop, tier, seed):
    workdir = wdir(prop)
    recs, crashed, out = run_zipf('c19', tier, seed, workdir)
    crecs, ccrashed, cout = run_zipf('c19cons', tier, seed, workdir, timeout=90)
    pending = None
    hung = None
    for r in crecs:
        if r['e'] == 'cons_begin':
            pending = r
        elif r['e'] == 'cons':
            pending = None
            recs.append(r)
    if ccrashed and pending is not None:
        hung = pending
    groups = collections.OrderedDict()
    for r in recs:
        key = (r['cls'], r['ty'], r['min'], r['max'], r['alpha'])
        groups.setdefault(key, []).append(r)
    hists = []
    origin = []
    for key, rs in groups.items():
        seeds = {}
        h = []
        src = []
        for r in rs:
            if r['e'] == 'samp':
                sd = seeds.setdefault(r['seed'], len(seeds) + 1)
                h.append({'e': 'samp', 'sd': sd, 'k': r['k'], 'v': r['v'], 'threw': 0, 'bad': 0, 'same': 1})
            elif r['e'] == 'bytes':
                h.append({'e': 'bytes', 'sd': 0, 'k': 0, 'v': '-', 'threw': 0, 'bad': 0, 'same': r['same']})
            else:
                h.append({'e': 'cons', 'sd': 0, 'k': 0, 'v': '-', 'threw': r['threw'], 'bad': int(int(r['max']) < int(r['min'])), 'same': 1})
            src.append(r)
        hists.append(h)
        origin.append(src)
    rej, st = vlib.validate_until_clean(os.path.join(SPEC, 'ZipfAbsTrace.tla'), os.path.join(SPEC, 'cfg', 'ZipfAbsTrace.cfg'), hists,
                                        workdir, 'za', max_rounds=3)
    violations = []
    for r in rej[:8]:
        bad = origin[r['hist']][r['line']] if r['line'] < len(origin[r['hist']]) else {}
        if bad.get('e') == 'bytes':
            d = ('%s<%s>(min=%s,max=%s,alpha=%s): sampling changed the bytes of the (const) generator object - it keeps hidden mutable state'
                 % (bad.get('cls'), bad.get('ty'), bad.get('min'), bad.get('max'), bad.get('alpha')))
            sig = ['bytes', 'cls:' + str(bad.get('cls'))]
        elif bad.get('e') == 'cons':
            d = 'constructing %s<%s>(min=%s, max=%s) %s' % (bad.get('cls'), bad.get('ty'), bad.get('min'), bad.get('max'),
                                                             'threw' if bad.get('threw') else 'did not throw')
            sig = ['cons', 'cls:' + str(bad.get('cls'))]
        else:
            d = ('%s<%s>(min=%s,max=%s,alpha=%s): the %s generator produced %s at position %s of seed %s, another object with equal '
                 'parameters produced a different value from the same engine state'
                 % (bad.get('cls'), bad.get('ty'), bad.get('min'), bad.get('max'), bad.get('alpha'), bad.get('who'), bad.get('v'),
                    bad.get('k'), bad.get('seed')))
            sig = ['samp', 'cls:' + str(bad.get('cls')), 'who:' + str(bad.get('who'))]
        violations.append({'desc': 'C19: ' + d, 'signature': sig, 'replay': {'kind': 'zipf', 'record': bad}})
    if crashed:
        violations.append({'desc': 'C19: the driver crashed: ' + out[-300:], 'signature': ['crash'], 'replay': {'kind': 'zipf'}})
    if hung is not None:
        bad = int(hung['max']) < int(hung['min'])
        violations.append({'desc': 'C19: constructing %s<%s>(min=%s, max=%s) neither returned nor threw within 90 s (%s)'
                                   % (hung['cls'], hung['ty'], hung['min'], hung['max'], 'max < min must be rejected' if bad else cout[-100:]),
                           'signature': ['cons-hang', 'cls:' + hung['cls']], 'replay': {'kind': 'zipf', 'record': hung}})
    cov = {'explanation': 'trace validation against a functional specification (ZipfAbsTrace.tla): per parameter tuple TLC keeps the '
                          'function engine-state -> value learnt so far and requires every sample of the original, equal, copied, '
                          'moved and concurrently shared generators to agree with it; constructions must throw iff max < min',
           'states': max(1, st['distinct']), 'transitions': max(1, st['states']), 'traces_validated_against_impl': len(groups),
           'evaluations': len(recs), 'distinct_nontrivial': len(groups),
           'rule': 'one parameter tuple (class, type, min, max, alpha) = one case; non-trivial = at least two objects sampled',
           'samples': [recs[i] for i in range(0, len(recs), max(1, len(recs) // 3))][:3], 'rejected_groups': len(rej)}
    return {'level': 'other', 'violations': violations, 'coverage': cov,
            'assumptions': ['engines are std::mt19937_64 seeded from VERIF_SEED; concurrent sampling uses real threads without a '
                            'scheduler, so a data race on hidden mutable state is caught only if it manifests in the sampled run']}


@register('C18')
def check_c18(prop, tier, seed):
    workdir = wdir(prop)
    recs, crashed, out = run_zipf('c18', tier, seed, workdir)
    tabs = [r for r in recs if r.get('e') == 'tab']
    hists = [[t] for t in tabs]
    rej, st = vlib.validate_until_clean(os.path.join(SPEC, 'ZipfCdfTrace.tla'), os.path.join(SPEC, 'cfg', 'ZipfCdfTrace.cfg'), hists,
                                        workdir, 'zc', max_rounds=4, max_rejections=40)
    violations = []
    one = 1 << 30
    for r in rej[:12]:
        t = tabs[r['hist']]
        why = []
        ks, ap, ex = t['ks'], t['ap'], t['ex']
        if ks and ks[-1] == t['n'] - 1 and ap[-1] != one:
            why.append('approximate class: last bin is not exactly 1')
        if t['hasex']:
            if any(ex[j] > ex[j + 1] for j in range(len(ex) - 1)):
                why.append('exact table decreases')
            if ks and ks[-1] == t['n'] - 1 and ex[-1] != one:
                why.append('exact class: last bin is not exactly 1')
            if t['n'] <= 100 and t['apq'] != t['exq']:
                why.append('n <= 100: approximate values differ from the exact ones')
            if t['n'] >= 1000 and 0 <= t['a100'] <= 300 and ex:
                j = max(range(len(ex)), key=lambda i: abs(ap[i] - ex[i]))
                if abs(ap[j] - ex[j]) > 10737419:
                    why.append('|approx - exact| = %.5f at bin %d' % (abs(ap[j] - ex[j]) / one, ks[j]))
        if not why:
            why.append('exact table deviates from Zipf\'s law (integer-exponent reference) or holds values outside [0, 1]')
        violations.append({'desc': 'C18: <%s>(min=%s, n=%s, alpha=%s): %s' % (t['ty'], t['min'], t['n'], t['alpha'], '; '.join(why)),
                           'signature': ['n:%s' % t['n'], 'alpha:%s' % t['alpha']] + [w.split(':')[0].split('=')[0].strip() for w in why],
                           'replay': {'kind': 'zipf', 'record': {k: v for k, v in t.items() if k not in ('ks', 'ex', 'ap', 'ex13', 'exq', 'apq')}}})
    if crashed:
        violations.append({'desc': 'C18: the table driver crashed or timed out: ' + out[-300:], 'signature': ['crash'],
                           'replay': {'kind': 'zipf', 'seed': seed, 'tier': tier}})
    bins = sum(len(t['ks']) for t in tabs)
    lawn = sum(1 for t in tabs if t['hasex'] and t['a100'] in (0, 100, 200, 300) and t['n'] <= 16)
    cov = {'explanation': 'trace validation of recorded CDF tables against ZipfCdfTrace.tla: monotone exact table, last bin exactly 1 '
                          '(both classes, every n), approximate = exact bit for bit when n <= 100, |approx - exact| <= 0.01 when n >= 1000 '
                          'and 0 <= alpha <= 3 (every bin up to n = 5000, dense samples beyond), and Zipf\'s law itself recomputed by TLC in '
                          'integer fixed-point arithmetic for integer alpha and n <= 16 (tolerance 0.5 %)',
           'states': max(1, st['distinct']), 'transitions': max(1, st['states']), 'traces_validated_against_impl': len(tabs),
           'evaluations': bins, 'distinct_nontrivial': len(tabs),
           'rule': 'one parameter tuple (type, min, n, alpha) = one case with its whole table (or a dense sample of it); evaluations = bins compared',
           'tables_checked_against_zipf_law_by_tlc': lawn,
           'samples': [{k: (v[:6] if isinstance(v, list) else v) for k, v in tabs[i].items()} for i in range(0, len(tabs), max(1, len(tabs) // 3))][:3],
           'rejected_tables': len(rej)}
    return {'level': 'other', 'violations': violations, 'coverage': cov,
            'assumptions': ['values are compared as fixed-point integers floor(cdf * 2^30) (exactly-1 and bit-equality tests are exact: 1.0 is '
                            '2^30, equality uses the IEEE representation)',
                            'the law itself is recomputed only where integer arithmetic can do it (alpha in {0,1,2,3}, n <= 16, 0.5 % tolerance); '
                            'for other alpha the exact class is trusted as the reference of the approximate one; rounding-level accuracy of '
                            'the exact class is not decided (no reals in TLA+/TLC)']}


# ------------------------------------------------------------------------------------------------
# replay of a recorded violation
# ------------------------------------------------------------------------------------------------
def replay_file(path):
    d = json.load(open(path))
    prop = d.get('property', '?')
    rp = d.get('replay') or {}
    kind = rp.get('kind')
    workdir = wdir('replay')
    os.makedirs(workdir, exist_ok=True)
    print('replaying %s: %s' % (path, (d.get('description') or '')[:300]))
    try:
        if kind in ('lock', 'lock-hb', 'lock-stream'):
            bdir = vlib.build(rp.get('n', 4))
            exs = vlib.replay(bdir, 'lockh', [rp['cls']], rp['program'], rp['schedule'], workdir)
            ex = exs[0]
            print('execution status:', ex.status, 'steps:', ex.steps)
            if kind == 'lock':
                h = vlib.api_history(ex, fifo=rp.get('fifo', False))
                cfg = lock_cfg(rp.get('switches', []), workdir, 'replay')
                rej, _ = vlib.validate_histories(os.path.join(SPEC, 'LockAbsTrace.tla'), cfg, [h], workdir, 'replay', nchunks=1)
            elif kind == 'lock-hb':
                st, ok = vlib.hb_stream(ex, rp['program'])
                h = [norm_hb(e) for e in st]
                rej, _ = vlib.validate_histories(os.path.join(SPEC, 'HBTrace.tla'), os.path.join(SPEC, 'cfg', 'HBTrace.cfg'), [h], workdir,
                                                 'replay', nchunks=1)
            else:
                h = vlib.node_stream(ex)
                rej, _ = vlib.validate_histories(os.path.join(SPEC, rp['spec']), os.path.join(SPEC, 'cfg', rp['spec'].replace('.tla', '.cfg')),
                                                 [h], workdir, 'replay', nchunks=1)
        elif kind == 'cex':
            # a behaviour of the Level-2 specification (counterexample or generated walk) as program + schedule
            bdir = vlib.build(rp.get('n', 4))
            exs = vlib.replay(bdir, 'lockh', [rp['cls']], rp['program'], rp['schedule'], workdir)
            ex = exs[0]
            print('execution status:', ex.status, 'steps:', ex.steps)
            bad = B2_OF[prop](rp['cls'], ex, rp['program'])
            h = []
            rej = [{'line': 0}] if bad else []
        elif kind == 'thread-x':
            bdir = vlib.build(rp['n'])
            exs = vlib.replay(bdir, 'threadh', [], rp['program'], rp['schedule'], workdir)
            ex = exs[0]
            print('execution status:', ex.status, 'steps:', ex.steps)
            h = epoch_hb_stream(ex)
            rej, _ = vlib.validate_histories(os.path.join(SPEC, rp['spec']), os.path.join(SPEC, 'cfg', 'HBTrace.cfg'), [h], workdir, 'replay',
                                             nchunks=1)
        elif kind == 'thread':
            bdir = vlib.build(rp['n'])
            exs = vlib.replay(bdir, 'threadh', [], rp['program'], rp['schedule'], workdir)
            ex = exs[0]
            print('execution status:', ex.status, 'steps:', ex.steps)
            if rp['spec'].startswith('Id'):
                h = id_history(ex)
                sw = {'C05': ['CkUnique'], 'C14': ['CkCapacity'], 'C15': ['CkHeartbeat']}.get(prop, ['CkUnique', 'CkCapacity', 'CkHeartbeat'])
                cfg = id_cfg(sw, 'replay')
            else:
                h = epoch_history(ex)
                sw = {'C04': ['CkPin'], 'C16': ['CkMono'], 'C17': ['CkList'], 'C20': ['CkSeq', 'CkMono']}.get(prop, ['CkPin', 'CkMono', 'CkList'])
                cfg = epoch_cfg(sw, 'replay')
            rej, _ = vlib.validate_histories(os.path.join(SPEC, rp['spec']), cfg, [h], workdir, 'replay', nchunks=1)
        else:
            print('this witness is a record, not a schedule: re-run the check itself (tools/vcheck %s)' % prop)
            print(json.dumps(rp, indent=1)[:2000])
            return 0
    except InfraError as e:
        log('INFRA-ERROR replay: %s' % e)
        return 2
    if rej:
        line = rej[0]['line']
        print('first unexplained event #%d: %s' % (line, h[line] if line < len(h) else 'end (see the trace specification of the property)'))
        print('VIOLATION property=%s replay=%s' % (prop, path))
        return 1
    print('the recorded execution is accepted by the specification on the current tree (not reproduced)')
    return 0


# ------------------------------------------------------------------------------------------------
# Level 2 (B1 conformance + B4 learnt orders + M model checking + B3 counterexample replay) for lock properties
# ------------------------------------------------------------------------------------------------
def add_level2(res, prop, tier, seed, classes, group, want, b2_reject):
    """b2_reject(cls, execution, program_line) -> True if the real execution violates the property (decided by the
    property's trace specification).  A model counterexample counts only if the real code follows it into a violation."""
    workdir = wdir(prop)
    os.makedirs(workdir, exist_ok=True)
    cov = res['coverage']
    l2 = {}
    notes = res.setdefault('notes', [])
    for cls in classes:
        conf = level2.conformance(cls, tier, seed)
        entry = {'conformance': {k: conf.get(k) for k in ('ok', 'streams', 'executions', 'events', 'states', 'rejected', 'mo_conflicts',
                                                           'sites_exercised')},
                 'memory_orders_learnt': conf['mo'], 'model_checking': []}
        l2[cls] = entry
        cov['states'] += conf['states']
        cov['transitions'] += conf['transitions']
        cov['traces_validated_against_impl'] += conf['executions']
        if not conf['ok']:
            first = conf['rejected'][0] if conf['rejected'] else {}
            msg = ('MODEL-DRIFT property=%s class=%s: the real code no longer follows %s (program %s, event #%s %s); the exhaustive '
                   'Level-2 result is void for this class, the verdict rests on the explored real executions'
                   % (prop, cls, level2.CLS_MODULE[cls], first.get('program'), first.get('line'), first.get('event')))
            log(msg)
            notes.append(msg)
            continue
        # B3': behaviours generated from the state graph of <Cls>Impl drive the real code; what comes out is validated
        # against both levels (the walk itself is shared by all lock properties and cached per source tree)
        wk = level2.model_walks(cls, tier, conf['mo'], seed)
        entry['model_walks'] = {k: wk.get(k) for k in ('config', 'model_states', 'model_edges', 'edges_on_generated_paths', 'paths',
                                                         'programs_run', 'exec_status', 'followed_intended_schedule', 'b1_streams',
                                                         'b2_histories', 'b2_switches', 'sample')}
        entry['model_walks']['b1_rejected'] = len(wk.get('b1_rejected', []))
        entry['model_walks']['b2_rejected'] = len(wk.get('b2_rejected', []))
        cov['states'] += wk.get('states', 0)
        cov['transitions'] += wk.get('transitions', 0)
        cov['traces_validated_against_impl'] += wk.get('programs_run', 0)
        if wk.get('b1_rejected'):
            msg = ('MODEL-DRIFT property=%s class=%s: a behaviour generated from %s drove the real code into an execution the '
                   'specification does not have (program %s)' % (prop, cls, level2.CLS_MODULE[cls], wk['b1_rejected'][0].get('program')))
            log(msg)
            notes.append(msg)
        for rj in wk.get('b2_rejected', [])[:3]:
            exs = vlib.replay(vlib.build(4), 'lockh', [cls], rj['program'], rj['schedule'], workdir, tag='walkrj')
            if exs and b2_reject(cls, exs[0], rj['program']):
                res['violations'].append({
                    'desc': '%s: a behaviour generated from the state graph of %s drives the real code into a history that violates '
                            'the property: program %s, schedule %s' % (prop, level2.CLS_MODULE[cls], rj['program'], rle(rj['schedule'])),
                    'signature': ['cls:' + cls, 'walk'],
                    'replay': {'kind': 'cex', 'cls': cls, 'program': rj['program'], 'schedule': rj['schedule'], 'n': 4, 'prop': prop}})
        for r in level2.model_check(cls, group, tier, conf['mo'], want):
            entry['model_checking'].append({k: r[k] for k in ('tag', 'ok', 'violated', 'states', 'transitions', 'wall', 'invariants',
                                                               'properties', 'consts')})
            cov['states'] += r['states']
            cov['transitions'] += r['transitions']
            if not r['violated']:
                continue
            if not r.get('cex'):
                msg = ('MODEL-DRIFT property=%s class=%s: %s (%s) is violated in the model instantiated from the code; no schedule can be '
                       'derived from this configuration, the verdict rests on the explored real executions'
                       % (prop, cls, r['violated'], r['tag']))
                log(msg)
                notes.append(msg)
                continue
            # B3: drive the real code along the counterexample
            ex, prog = level2.replay_cex(cls, [tuple(x) for x in r['cex']], workdir)
            if ex is None:
                notes.append('model counterexample of %s/%s could not be turned into a program' % (cls, r['tag']))
                continue
            if b2_reject(cls, ex, prog):
                res['violations'].append({
                    'desc': '%s: TLC found %s violated in %s (%s, learnt memory orders); the real code follows the counterexample: '
                            'program %s, schedule %s' % (prop, r['violated'], level2.CLS_MODULE[cls], r['tag'], prog, rle(ex.sched)),
                    'signature': ['cls:' + cls, 'model:' + str(r['violated'])],
                    'replay': {'kind': 'cex', 'cls': cls, 'program': prog, 'schedule': ex.sched, 'n': 4, 'prop': prop}})
            else:
                msg = ('MODEL-DRIFT property=%s class=%s: TLC reports %s violated in %s (%s) but the real code does not follow the '
                       'counterexample into a violation' % (prop, cls, r['violated'], level2.CLS_MODULE[cls], r['tag']))
                log(msg)
                notes.append(msg)
    cov['level2'] = l2
    return res


def b2_lock_abs(switches, fifo=False):
    def f(cls, ex, prog):
        workdir = wdir('b3')
        os.makedirs(workdir, exist_ok=True)
        h = vlib.api_history(ex, fifo=fifo)
        cfg = lock_cfg(switches, workdir, 'b3')
        rej, _ = vlib.validate_histories(os.path.join(SPEC, 'LockAbsTrace.tla'), cfg, [h], workdir, 'b3', nchunks=1)
        return bool(rej)
    return f


def b2_hb(cls, ex, prog):
    workdir = wdir('b3')
    os.makedirs(workdir, exist_ok=True)
    st, ok = vlib.hb_stream(ex, prog)
    if not ok:
        return False
    rej, _ = vlib.validate_histories(os.path.join(SPEC, 'HBTrace.tla'), os.path.join(SPEC, 'cfg', 'HBTrace.cfg'), [[norm_hb(e) for e in st]],
                                     workdir, 'b3', nchunks=1)
    return bool(rej)


def b2_nodes(cls, ex, prog):
    workdir = wdir('b3')
    os.makedirs(workdir, exist_ok=True)
    rej, _ = vlib.validate_histories(os.path.join(SPEC, 'NodeTrace.tla'), os.path.join(SPEC, 'cfg', 'NodeTrace.cfg'), [vlib.node_stream(ex)],
                                     workdir, 'b3', nchunks=1)
    return bool(rej)


L2_ASSUME = ['Level 2: TLC explores every interleaving of the atomic steps of <Cls>Impl for the stated thread counts and MaxOps calls '
             'per thread; the specification is bound to the code by step-for-step trace validation (B1) of the explored real '
             'executions and is instantiated with the memory orders learnt from them (B4); a model counterexample is reported '
             'only when the real code follows it into a violation (B3)']


B2_OF = {}


def wrap_l2(prop, classes, group, want, b2):
    """decorate a registered B2 check with the Level-2 part"""
    inner = REGISTRY[prop]
    B2_OF[prop] = b2

    def check(prop_, tier, seed):
        res = inner(prop_, tier, seed)
        add_level2(res, prop_, tier, seed, classes, group, want, b2)
        res['assumptions'] = list(res.get('assumptions', [])) + L2_ASSUME
        return res
    REGISTRY[prop] = check


ALL3 = ('pess', 'opt', 'mcs')
wrap_l2('C01', ALL3, 'safety', {'Compat', 'WordOK'}, b2_lock_abs(['CkCompat']))
wrap_l2('C02', ALL3, 'safety', {'NoDeadlock', 'FreeAtEnd', 'Termination'}, b2_lock_abs(['CkProgress']))
wrap_l2('C03', ('opt',), 'safety', {'OptSound', 'OptComplete', 'SampleOK'}, b2_lock_abs(['CkOptimistic', 'CkCompat']))
wrap_l2('C08', ALL3, 'hb', {'HB'}, b2_hb)
wrap_l2('C09', ('opt',), 'safety', {'VerOK', 'WordOK'}, b2_lock_abs(['CkVersion', 'CkProgress', 'CkCompat']))
wrap_l2('C10', ALL3, 'safety', {'Compat', 'WordOK'}, b2_lock_abs(['CkConvAtomic', 'CkCompat']))
wrap_l2('C11', ('mcs',), 'safety', {'Fifo'}, b2_lock_abs(['CkFifo', 'CkCompat'], fifo=True))
wrap_l2('C12', ('mcs',), 'safety', {'NodeSafe', 'GuardNodes', 'LiveBound', 'FreeAtEnd'}, b2_nodes)
wrap_l2('C13', ('opt',), 'safety', {'PrepareOK', 'SampleOK', 'Compat'}, b2_lock_abs(['CkPrepare', 'CkOptimistic', 'CkGuards', 'CkProgress', 'CkCompat']))


def add_level2_id(res, prop, tier, seed, want):
    cov = res['coverage']
    notes = res.setdefault('notes', [])
    l2 = {}
    for n in cov.get('capacities', [1, 2]):
        conf = level2.id_conformance(n, tier, seed)
        entry = {'conformance': {k: conf[k] for k in ('ok', 'streams', 'executions', 'events', 'states', 'rejected')},
                 'exit_order_observed': conf['exit_order'], 'model_checking': None}
        l2['N=%d' % n] = entry
        cov['states'] += conf['states']
        cov['transitions'] += conf['transitions']
        cov['traces_validated_against_impl'] += conf['executions']
        if not conf['ok']:
            msg = ('MODEL-DRIFT property=%s capacity=%d: the real code no longer follows IdImpl (exit order observed: %s, first '
                   'rejected: %s); the Level-2 result is void, the verdict rests on the explored real executions'
                   % (prop, n, conf['exit_order'], conf['rejected'][:1]))
            log(msg)
            notes.append(msg)
            continue
        r = level2.id_model_check(n, conf['exit_order'], tier, want)
        entry['model_checking'] = r
        cov['states'] += r['states']
        cov['transitions'] += r['transitions']
        if r['violated']:
            confirmed = any('cap:%d' % n in v.get('signature', []) for v in res['violations'])
            msg = ('IdImpl (capacity %d, exit order %s as observed in the running code): TLC reports %s violated; %s'
                   % (n, conf['exit_order'], r['violated'],
                      'real executions violating the property were found as well' if confirmed else
                      'no explored real execution shows it (MODEL-DRIFT, not reported)'))
            log(msg)
            notes.append(msg)
    cov['level2'] = l2


def wrap_l2_id(prop, want):
    inner = REGISTRY[prop]

    def check(prop_, tier, seed):
        res = inner(prop_, tier, seed)
        add_level2_id(res, prop_, tier, seed, want)
        res['assumptions'] = list(res.get('assumptions', [])) + [
            'Level 2: IdImpl is model-checked for every hash assignment and interleaving (capacity N, N+2 threads) with the order '
            'of the two thread-exit steps observed in the running code; bound to the code by trace validation of the flag '
            'operations (IdImplTrace)']
        return res
    REGISTRY[prop] = check


wrap_l2_id('C05', {'UniqueIDs', 'InRange'})
wrap_l2_id('C14', {'FlagsOK', 'FreeAtEnd', 'NoDeadlock', 'GetsID', 'Termination'})
wrap_l2_id('C15', {'HBUnique', 'HBAlive', 'HBDead'})


def add_level2_epoch(res, prop, tier, seed, group):
    cov = res['coverage']
    notes = res.setdefault('notes', [])
    conf = level2.id_conformance(2, tier, seed)        # the exit order is a fact about IDManager's exit path
    order = conf['exit_order']
    entry = {'exit_order_observed': order, 'id_conformance_ok': conf['ok'], 'model_checking': []}
    cov['level2'] = entry
    if order == 'mixed' or not conf['ok']:
        msg = 'MODEL-DRIFT property=%s: the thread-exit path no longer follows IdImpl; EpochImpl is not instantiated' % prop
        log(msg)
        notes.append(msg)
        return
    ec = level2.epoch_conformance(tier, seed)
    entry['conformance'] = {k: ec.get(k) for k in ('ok', 'streams', 'executions', 'events', 'states', 'rejected', 'skipped', 'capacities')}
    entry['conformance_sample'] = ec.get('sample')
    cov['states'] += ec.get('states', 0)
    cov['transitions'] += ec.get('transitions', 0)
    cov['traces_validated_against_impl'] += ec.get('executions', 0)
    if not ec.get('ok'):
        first = (ec.get('rejected') or [{}])[0]
        msg = ('MODEL-DRIFT property=%s: the real code no longer follows EpochImpl step for step (program %s, event #%s %s); the '
               'exhaustive Level-2 result is void, the verdict rests on the explored real executions'
               % (prop, first.get('program'), first.get('line'), first.get('event')))
        log(msg)
        notes.append(msg)
        return
    for r in level2.epoch_model_check(group, tier, order):
        entry['model_checking'].append({k: r[k] for k in ('tag', 'ok', 'violated', 'states', 'transitions', 'wall', 'invariants',
                                                           'properties', 'constraint', 'consts', 'cex_overlapped_forwards')})
        cov['states'] += r['states']
        cov['transitions'] += r['transitions']
        if not r['violated']:
            continue
        if group == 'list' and (r['cex_overlapped_forwards'] or 0) >= 2:
            notes.append('EpochImpl (%s): TLC reproduces the known finding D6 in the model (%s violated by a guard creation that '
                         'overlaps %d forwards)' % (r['tag'], r['violated'], r['cex_overlapped_forwards']))
            continue
        confirmed = bool(res['violations'])
        msg = ('EpochImpl (%s, exit order %s as observed): TLC reports %s violated; %s'
               % (r['tag'], order, r['violated'], 'real executions violating the property were found as well' if confirmed else
                  'no explored real execution shows it (MODEL-DRIFT, not reported)'))
        log(msg)
        notes.append(msg)


def wrap_l2_epoch(prop, group):
    inner = REGISTRY[prop]

    def check(prop_, tier, seed):
        res = inner(prop_, tier, seed)
        add_level2_epoch(res, prop_, tier, seed, group)
        res['assumptions'] = list(res.get('assumptions', [])) + [
            'Level 2: EpochImpl (list-node capacity 2, 1-3 workers, 3-7 forwards, thread exit and ID reuse) is model-checked with the '
            'thread-exit order observed in the running code; it is bound to the code by step-for-step trace validation '
            '(EpochImplTrace, node capacity 256): every atomic operation, hook point, node allocation/retirement and exit step of '
            'the explored real executions must be the enabled action with the same slot, node and value']
        return res
    REGISTRY[prop] = check


wrap_l2_epoch('C04', 'pin')
wrap_l2_epoch('C16', 'mono')
wrap_l2_epoch('C17', 'list')
wrap_l2_epoch('C20', 'seq')
