#!/usr/bin/env python3
"""Level-2 machinery shared by the lock checks:
   B1  conformance of real operation streams to <Cls>Impl (TLC trace validation) and
   B4  the memory-order table learnt while matching (printed by the trace specification),
   M   TLC model checking of <Cls>Impl instantiated with the learnt table,
   B3  replay of a TLC counterexample as program + schedule in the real code.
Results of B1/B4 and of each model-checking configuration are cached per source-tree hash."""
import os, re, json, time, hashlib
import vlib, programs
from vlib import InfraError, log, OUT, SPEC, CACHE

CLS_MODULE = {'pess': 'PessImpl', 'opt': 'OptImpl', 'mcs': 'McsImpl'}
CONV = ('UPG', 'DNG', 'UPDN', 'DNUP')
MODES3 = ('S', 'SIX', 'X')


def _cache_path(kind, key):
    os.makedirs(CACHE, exist_ok=True)
    return os.path.join(CACHE, 'l2_%s_%s.json' % (kind, hashlib.sha256(key.encode()).hexdigest()[:20]))


def _spec_hash():
    h = hashlib.sha256()
    for f in sorted(os.listdir(SPEC)):
        p = os.path.join(SPEC, f)
        if os.path.isfile(p):
            h.update(open(p, 'rb').read())
    for f in ('level2.py', 'vlib.py', 'programs.py'):
        h.update(open(os.path.join(os.path.dirname(os.path.abspath(__file__)), f), 'rb').read())
    return h.hexdigest()[:12]


# ------------------------------------------------------------------------------------------------
# B1 + B4
# ------------------------------------------------------------------------------------------------
def conformance_programs(cls, tier):
    q = tier == 'quick'
    lib = programs.COMMON_SCRIPTS + (programs.OPT_SCRIPTS + ('XSV0', 'GTXX') if cls == 'opt' else ())
    plan = [(programs.cross2(cls, lib), dict(pb=2, max_exec=(120 if cls == 'opt' else 300) if q else 4000)),
            (programs.cross3(cls, CONV + ('X',), MODES3, MODES3), dict(pb=1 if q else 2, max_exec=150 if q else 3000)),
            (programs.four(cls), dict(pb=1, max_exec=100 if q else 1500))]
    if cls == 'opt':
        plan.append((programs.cross3(cls, ('GTX', 'GTI', 'PRV', 'GVV'), ('X', 'DNG', 'XSV'), MODES3), dict(pb=1, max_exec=150 if q else 3000)))
    return plan


def conformance(cls, tier, seed=0):
    """Returns dict(ok, streams, events, rejected[], mo{site: order}, drift_note)"""
    bdir = vlib.build(4)
    key = 'conf|%s|%s|%s|%s' % (os.path.basename(bdir), cls, tier, _spec_hash())
    cp = _cache_path('conf', key)
    if os.path.exists(cp):
        return json.load(open(cp))
    import checks
    workdir = os.path.join(OUT, 'work', 'l2_%s.%d' % (cls, os.getpid()))
    os.makedirs(workdir, exist_ok=True)
    execs = []
    ptext = {}
    t0 = time.time()
    for k, (progs, par) in enumerate(conformance_programs(cls, tier)):
        for p in progs:
            ptext[p.split()[1]] = p
        execs.extend(checks.explore_lock(bdir, cls, progs, workdir, par['pb'], par['max_exec'], seed, tag='conf%d' % k))

    def proj(ex):
        if ex.status != 'ok':
            return []
        st, ok = (vlib.l2_stream_mcs(ex) if cls == 'mcs' else vlib.l2_stream(ex, cls))
        if not ok:
            return []
        return [vlib.norm_l2(x, cls) for x in st if x['e'] in ('call', 'op', 'ret', 'setv', 'texit')
                and not (cls != 'mcs' and x['e'] == 'texit')]
    groups = [g for g in vlib.dedup_histories(execs, proj) if g[0]]
    hists = [g[0] for g in groups]
    reps = [g[1] for g in groups]
    mod = CLS_MODULE[cls]
    rej, st = vlib.validate_until_clean(os.path.join(SPEC, mod + 'Trace.tla'), os.path.join(SPEC, 'cfg', mod + 'Trace.cfg'), hists,
                                        workdir, 'conf', max_rounds=2)
    mo = {}
    conflict = []
    for site, orders in st.get('mo', {}).items():
        if len(orders) > 1:
            conflict.append(site)
        mo[site] = sorted(orders)[0]
    total_sites = {'pess': 16, 'opt': 20, 'mcs': 42}[cls]
    res = {'ok': bool(hists) and not rej and not conflict, 'sites_exercised': '%d/%d' % (len(mo), total_sites),
           'sites_never_exercised_get_seq_cst': total_sites - len(mo), 'streams': len(hists), 'executions': len(execs), 'events': st['events'],
           'states': st['distinct'], 'transitions': st['states'], 'mo': mo, 'mo_conflicts': conflict,
           'rejected': [{'program': reps[r['hist']].prog, 'schedule': reps[r['hist']].sched, 'line': r['line'],
                         'event': hists[r['hist']][r['line']] if r['line'] < len(hists[r['hist']]) else None} for r in rej[:5]],
           'wall': round(time.time() - t0, 1),
           'sample': {'program': reps[0].prog, 'schedule': reps[0].sched,
                      'stream_head': [{k: v for k, v in e.items() if v not in (-1, '-')} for e in hists[0][:12]]} if hists else None}
    json.dump(res, open(cp, 'w'))
    import shutil
    shutil.rmtree(workdir, ignore_errors=True)
    return res


# ------------------------------------------------------------------------------------------------
# M: model-checking configurations per class and property group
# ------------------------------------------------------------------------------------------------
def mc_configs(cls, group, tier):
    """list of (tag, consts, extra defs, invariants, properties, spec)"""
    q = tier == 'quick'
    T2, T3 = {1, 2}, {1, 2, 3}
    if cls == 'pess':
        base = {'MO': '<- MOlearnt'}
        if group == 'safety':
            cfgs = [('t3o2', dict(base, Threads=T3, MaxOps=2, WithHB=False))] if q else \
                   [('t3o3', dict(base, Threads=T3, MaxOps=3, WithHB=False)), ('t4o2', dict(base, Threads={1, 2, 3, 4}, MaxOps=2, WithHB=False))]
            return [(t, c, [], ['Compat', 'WordOK', 'NoDeadlock', 'FreeAtEnd'], ['Termination'], 'FairSpec') for t, c in cfgs]
        if group == 'hb':
            cfgs = [('t2o3', dict(base, Threads=T2, MaxOps=3, WithHB=True))] if q else \
                   [('t2o4', dict(base, Threads=T2, MaxOps=4, WithHB=True)), ('t3o2', dict(base, Threads=T3, MaxOps=2, WithHB=True))]
            return [(t, c, [], ['Compat', 'HB'], [], 'Spec') for t, c in cfgs]
    if cls == 'opt':
        base = {'MO': '<- MOlearnt', 'VHi': 1, 'VLo': 3, 'Retry': 1, 'SetVers': '<- SV', 'WithOpt': True}
        defs = ['SV == {<<0, 0>>, <<0, 2>>}']
        if group == 'safety':
            cfgs = [('t2o2', dict(base, Threads=T2, MaxOps=2, WithHB=False))] if q else \
                   [('t2o3', dict(base, Threads=T2, MaxOps=3, WithHB=False)), ('t3o1', dict(base, Threads=T3, MaxOps=1, WithHB=False)),
                    ('t2o2w', dict(base, Threads=T2, MaxOps=2, WithHB=False, VHi=2, VLo=2))]
            return [(t, c, defs, ['Compat', 'WordOK', 'NoDeadlock', 'FreeAtEnd', 'VerOK'],
                     ['Termination', 'OptSound', 'OptComplete', 'SampleOK', 'PrepareOK'], 'FairSpec') for t, c in cfgs]
        if group == 'hb':
            defs2 = ['SV == {<<0, 0>>}']
            cfgs = [('t2o2', dict(base, Threads=T2, MaxOps=2, WithHB=True))] if q else \
                   [('t2o3', dict(base, Threads=T2, MaxOps=3, WithHB=True)), ('t3o1', dict(base, Threads=T3, MaxOps=1, WithHB=True))]
            return [(t, c, defs2, ['Compat', 'HB'], [], 'Spec') for t, c in cfgs]
    if cls == 'mcs':
        base = {'MO': '<- MOlearnt', 'WithConv': True, 'Allowed': '<- AllM'}
        defs = ['AllM == [t \\in Threads |-> {"S", "SIX", "X"}]']
        d3 = ['AllM == [t \\in Threads |-> CASE t = 1 -> {"X", "SIX"} [] t = 2 -> {"S"} [] OTHER -> {"X", "S"}]']
        inv = ['Compat', 'NoDeadlock', 'FreeAtEnd', 'Fifo', 'NodeSafe', 'GuardNodes', 'LiveBound']
        if group == 'safety':
            out = [('t2o2', dict(base, Threads=T2, MaxOps=2, NNodes=4, WithHB=False), defs, inv, ['Termination'], 'FairSpec')]
            if not q:
                out = [('t2o3', dict(base, Threads=T2, MaxOps=3, NNodes=6, WithHB=False), defs, inv, ['Termination'], 'FairSpec'),
                       ('t3o1', dict(base, Threads=T3, MaxOps=1, NNodes=3, WithHB=False), defs, inv, ['Termination'], 'FairSpec'),
                       ('t3o2r', dict(base, Threads=T3, MaxOps=2, NNodes=6, WithHB=False, WithConv=False), d3, inv, [], 'Spec')]
            return out
        if group == 'hb':
            out = [('t2o2', dict(base, Threads=T2, MaxOps=2, NNodes=4, WithHB=True), defs, ['Compat', 'HB'], [], 'Spec')]
            if not q:
                out = [('t2o3', dict(base, Threads=T2, MaxOps=3, NNodes=6, WithHB=True), defs, ['Compat', 'HB'], [], 'Spec'),
                       ('t3o1', dict(base, Threads=T3, MaxOps=1, NNodes=3, WithHB=True), defs, ['Compat', 'HB'], [], 'Spec')]
            return out
    raise ValueError((cls, group))


def model_check(cls, group, tier, mo, want=None):
    """Run (or fetch from the cache) every configuration of a group, restricted to the invariants / properties
    named in `want` (None = all); returns list of result dicts."""
    bdir = vlib.build(4)
    out = []
    for tag, consts, defs, invs, props, spec in mc_configs(cls, group, tier):
        if want is not None:
            invs = [i for i in invs if i in want]
            props = [i for i in props if i in want]
            if not invs and not props:
                continue
            if not props:
                spec = 'Spec'
        key = 'mc|%s|%s|%s|%s|%s|%s|%s' % (os.path.basename(bdir), cls, group, tag, json.dumps(mo, sort_keys=True), _spec_hash(),
                                          ','.join(invs + props))
        cp = _cache_path('mc', key)
        if os.path.exists(cp):
            out.append(json.load(open(cp)))
            continue
        t0 = time.time()
        r = vlib.model_check(CLS_MODULE[cls], '%s_%s_%s' % (cls, group, tag), consts, [vlib.mo_def(mo)] + defs, invariants=invs,
                             properties=props, spec=spec, workers=12, heap='8g', timeout=1700 if tier == 'quick' else 7000,
                             workdir=os.path.join(OUT, 'work', 'mc.%d' % os.getpid()))
        res = {'cls': cls, 'group': group, 'tag': tag, 'ok': r['ok'], 'violated': r['violated'], 'states': r['distinct'],
               'transitions': r['states'], 'wall': round(time.time() - t0, 1), 'invariants': invs, 'properties': props,
               'consts': {k: (sorted(v) if isinstance(v, (set, frozenset)) else v) for k, v in consts.items()},
               'cex': parse_cex(r['out']) if r['violated'] else None}
        if not r['ok'] and not r['violated']:
            raise InfraError('model checking %s/%s/%s did not complete:\n%s' % (cls, group, tag, r['out'][-2000:]))
        json.dump(res, open(cp, 'w'))
        out.append(res)
    if cls == 'pess' and group == 'safety' and (want is None or want & {'Compat', 'WordOK'}):
        # unbounded executions: IndInv (TypeOK, WordOK, PcOK, Compat) is inductive - every state satisfying it is an initial
        # state of PessInd!IndSpec, one step of Next must preserve it (Init => IndInv: it is an invariant of the runs above)
        key = 'mcind|%s|%s|%s' % (os.path.basename(bdir), json.dumps(mo, sort_keys=True), _spec_hash())
        cp = _cache_path('mcind', key)
        if os.path.exists(cp):
            out.append(json.load(open(cp)))
        else:
            t0 = time.time()
            consts = {'MO': '<- MOlearnt', 'Threads': {1, 2, 3}, 'MaxOps': 1000, 'WithHB': False}
            r = vlib.model_check('PessInd', 'pess_inductive', consts, [vlib.mo_def(mo)], invariants=['IndInv'], spec='IndSpec',
                                 constraint='OneStepOnly', workers=8, heap='6g', timeout=1500,
                                 workdir=os.path.join(OUT, 'work', 'mc.%d' % os.getpid()))
            if not r['ok'] and not r['violated']:
                raise InfraError('inductive check of PessImpl did not complete:\n%s' % r['out'][-2000:])
            res = {'cls': cls, 'group': group, 'tag': 'inductive-t3 (executions of any length)', 'ok': r['ok'], 'violated': r['violated'],
                   'states': r['distinct'], 'transitions': r['states'], 'wall': round(time.time() - t0, 1), 'invariants': ['IndInv'],
                   'properties': [], 'consts': {'Threads': [1, 2, 3], 'MaxOps': 'unbounded'}, 'cex': None}
            json.dump(res, open(cp, 'w'))
            out.append(res)
    return out


# ------------------------------------------------------------------------------------------------
# B3: a TLC counterexample as program + schedule for the real code
# ------------------------------------------------------------------------------------------------
ACT = re.compile(r'^State \d+: <(\w+)(?:\(([^)]*)\))? line')


def parse_cex(tlc_out):
    """[(action, [args])] of the error trace (initial state excluded)"""
    steps = []
    for line in tlc_out.splitlines():
        m = ACT.match(line.strip())
        if m:
            args = [a.strip().strip('"') for a in m.group(2).split(',')] if (m.group(2) or '').strip() else []
            steps.append((m.group(1), args))
    return steps


NO_QUANTUM = {'Ret', 'LXG', 'LSG', 'Exit', 'Grant'}
RESTART = {('LCas', 'LLoad'), ('UpCas', 'UpLoad'), ('TCas', 'TLoad'), ('PCas', 'P2'), ('P1', 'P1'), ('P1', 'P2')}


def cex_to_program(cls, steps):
    """Program line and schedule that drive the real code along a counterexample of <Cls>Impl."""
    ths = {}
    cur = {}      # thread -> (kind, guard id) currently owning
    og = {}
    g = [0]
    sched = []

    def new():
        g[0] += 1
        return g[0]
    pre = {'S': 's', 'SIX': 'i', 'X': 'x'}
    leftovers = {}
    prev_act = {}
    for act, args in steps:
        if not args:
            continue
        try:
            t = int(args[0])
        except ValueError:
            continue
        ops = ths.setdefault(t, [])
        if act in ('CallLock', 'CallGetVersion', 'CallTryLock', 'CallPrepare') and cur.get(t, ('', 0))[0] == 'C':
            # the model's PrepareRead came back without the lock; in the real run it may have had to take it: the composite
            # guard is destroyed (one more call, one more quantum) before the thread asks again
            ops.append('U:c%d' % cur[t][1])
            sched.append(t)
            if og.get(t, ('', 0))[0] == 'c':
                og.pop(t)
            cur.pop(t)
        if act == 'CallLock':
            m = args[1]
            k = new()
            ops.append('%s:%s%d:1' % (m, pre[m], k))
            cur[t] = (m, k)
        elif act == 'CallUnlock':
            if t in cur:
                m, k = cur.pop(t)
                ops.append('U:%s%d' % (pre[m] if m != 'C' else 'c', k))
        elif act == 'CallUpgrade':
            m, k = cur[t]
            h = new()
            ops.append('UP:i%d:x%d' % (k, h))
            leftovers.setdefault(t, []).append('U:i%d' % k)
            cur[t] = ('X', h)
        elif act == 'CallDowngrade':
            m, k = cur[t]
            h = new()
            ops.append('DN:x%d:i%d' % (k, h))
            leftovers.setdefault(t, []).append('U:x%d' % k)
            cur[t] = ('SIX', h)
        elif act == 'CallGetVersion':
            k = new()
            og[t] = ('o', k)
            ops.append('GV:o%d:1' % k)
        elif act == 'CallVerify':
            if t not in og:
                return None, None
            kind, k = og[t]
            ops.append(('VV:o%d' if kind == 'o' else 'CV:c%d') % k)
        elif act == 'CallCVerify':
            ops.append('CV:c%d' % cur[t][1])
        elif act == 'CallTryLock':
            m = args[1]
            if t not in og:
                return None, None
            kind, k = og[t]
            if kind != 'o':
                return None, None          # the model lets a version sampled by PrepareRead be used for TryLock*; the API has no such call
            h = new()
            ops.append('%s:o%d:%s%d' % ({'S': 'TS', 'SIX': 'TI', 'X': 'TX'}[m], k, pre[m], h))
            cur[t] = (m, h)          # if the try fails in the real run the later U is a no-op
        elif act == 'CallPrepare':
            k = new()
            og[t] = ('c', k)
            cur[t] = ('C', k)
            ops.append('PR:c%d:1' % k)
        elif act in ('SetVersion', 'CallSetVersion'):
            m, k = cur[t]
            nums = re.findall(r'-?\d+', ','.join(args[1:]))
            v = int(nums[0]) * 65536 + int(nums[1]) if len(nums) >= 2 else 0
            ops.append('SV:x%d:%d' % (k, v))
        # a loop iteration that failed (CAS lost, test not met) passes the spin hint - one more quantum - before the
        # loop head runs again
        if (prev_act.get(t), act) in RESTART:
            sched.append(t)
        prev_act[t] = act
        if act not in NO_QUANTUM:
            sched.append(t)
    n = max(ths) if ths else 0
    lines = []
    for t in range(1, n + 1):
        ops = list(ths.get(t, []))
        if t in cur:
            m, k = cur[t]
            ops.append('U:%s%d' % (pre.get(m, 'c'), k))
        ops.extend(leftovers.get(t, []))
        lines.append(' '.join(ops) if ops else 'D:s%d' % new())
    if g[0] > 11:
        return None, None
    prog = 'P cex_%s %s | %s %s' % (cls, cls, ' | '.join(lines), programs.fin(cls))
    return prog, ','.join(str(x) for x in sched)


def replay_cex(cls, steps, workdir):
    """Run the real code along the counterexample; returns the resulting execution (or None)."""
    prog, sched = cex_to_program(cls, steps)
    if prog is None:
        return None, None
    bdir = vlib.build(4)
    exs = vlib.replay(bdir, 'lockh', [cls], prog, sched, workdir, tag='cex')
    return (exs[0] if exs else None), prog


# ------------------------------------------------------------------------------------------------
# IDManager: B1 conformance (IdImplTrace), B4 exit order, M (IdImpl)
# ------------------------------------------------------------------------------------------------
def id_stream(ex, prog_line):
    """flag operations of one execution for IdImplTrace; returns (events, exit-order observations, ok)"""
    hashes = {}
    for tok in prog_line.split():
        if tok.startswith('hash='):
            for i, h in enumerate(tok[5:].split(',')):
                hashes[i + 1] = int(h)
    base = None
    last_x = {}
    for e in ex.events:
        if e.get('e') == 'op' and e.get('site', '').startswith('id_manager.cpp') and e['k'] == 'xchg' and e['b'] == '0':
            last_x[e['t']] = int(e['loc'][1:], 16)
        elif e.get('e') == 'id' and base is None and e['t'] in last_x:
            base = last_x[e['t']] - e['id']
    if base is None:
        return [], [], False
    out = []
    obs = []
    started = set()
    ok = True
    for e in ex.events:
        k = e.get('e')
        t = e.get('t', 0)
        if k == 'idcall' and t not in started:
            started.add(t)
            out.append({'e': 'start', 't': t, 'h': hashes.get(t, t)})
        elif k == 'op' and e.get('site', '').startswith('id_manager.cpp'):
            if not e['loc'].startswith('@'):
                ok = False
                continue
            i = int(e['loc'][1:], 16) - base
            if e['k'] == 'load':
                out.append({'e': 'ld', 't': t, 'i': i, 'v': int(e['a'], 16)})
            elif e['k'] == 'xchg':
                out.append({'e': 'xc', 't': t, 'i': i, 'v': int(e['b'], 16)})
            elif e['k'] == 'store':
                out.append({'e': 'st', 't': t, 'i': i, 'x': -1})
            else:
                ok = False
        elif k == 'exitop':
            for o in reversed(out):
                if o['e'] == 'st' and o['t'] == t and o['x'] == -1:
                    o['x'] = e['x']
                    obs.append(e['x'])
                    break
        elif k == 'id':
            out.append({'e': 'got', 't': t, 'id': e['id']})
        elif k in ('tend', 'texit'):
            out.append({'e': k, 't': t})
    return out, obs, ok


ID_L2_FIELDS = ('t', 'h', 'i', 'v', 'id', 'x')


def id_conformance(n, tier, seed=0):
    import checks
    bdir = vlib.build(n)
    key = 'idconf|%s|%d|%s|%s' % (os.path.basename(bdir), n, tier, _spec_hash())
    cp = _cache_path('idconf', key)
    if os.path.exists(cp):
        return json.load(open(cp))
    workdir = os.path.join(OUT, 'work', 'l2_id%d.%d' % (n, os.getpid()))
    os.makedirs(workdir, exist_ok=True)
    # (programs in which a client keeps a heartbeat locked beyond its owner's exit, or that end stuck by design, say nothing about
    # the order of the two exit steps)
    progs = [p for p in checks.id_programs(n, tier) if not any(x in p.split()[1] for x in ('pin_reuse', 'lockedhb', '_over'))]
    ptext = {p.split()[1]: p for p in progs}
    files = vlib.run_harness(bdir, 'threadh', [], progs, workdir, mode='dfs', pb=2, max_exec=1500 if tier == 'quick' else 20000,
                             seed=seed, tag='idconf')
    execs = [e for f in files for e in vlib.iter_execs(f) if e.status == 'ok']
    obs_all = set()

    def proj(ex):
        st, obs, ok = id_stream(ex, ptext[ex.prog])
        if not ok:
            return []
        obs_all.update(obs)
        return [dict({'e': e['e']}, **{f: e.get(f, -1) for f in ID_L2_FIELDS}) for e in st]
    groups = [g for g in vlib.dedup_histories(execs, proj) if g[0]]
    hists = [g[0] for g in groups]
    reps = [g[1] for g in groups]
    order = 'hb_first' if obs_all == {1} else ('flag_first' if obs_all == {0} else 'mixed')
    res = {'n': n, 'exit_order': order, 'streams': len(hists), 'executions': len(execs), 'ok': False, 'rejected': [], 'states': 0,
           'transitions': 0, 'events': 0}
    if order != 'mixed' and hists:
        cfg = vlib.write_cfg(os.path.join(SPEC, 'cfg', 'IdImplTrace.tpl.cfg'), {'N': n, 'ExitOrder': order},
                             os.path.join(workdir, 'idconf.cfg'))
        rej, st = vlib.validate_until_clean(os.path.join(SPEC, 'IdImplTrace.tla'), cfg, hists, workdir, 'idconf', max_rounds=2)
        res.update(ok=not rej, states=st['distinct'], transitions=st['states'], events=st['events'],
                   rejected=[{'program': reps[r['hist']].prog, 'schedule': reps[r['hist']].sched, 'line': r['line'],
                              'event': hists[r['hist']][r['line']] if r['line'] < len(hists[r['hist']]) else None} for r in rej[:5]])
    json.dump(res, open(cp, 'w'))
    import shutil
    shutil.rmtree(workdir, ignore_errors=True)
    return res


def id_model_check(n, order, tier, want):
    bdir = vlib.build(n)
    q = tier == 'quick'
    workers = {1: (3, 2), 2: (4, 1), 3: (4, 1) if q else (5, 1)}[n]
    invs = [i for i in ('UniqueIDs', 'InRange', 'HBUnique', 'HBAlive', 'HBDead', 'FlagsOK', 'FreeAtEnd', 'NoDeadlock') if i in want]
    props = [i for i in ('GetsID', 'Termination') if i in want]
    key = 'idmc|%s|%d|%s|%s|%s|%s' % (os.path.basename(bdir), n, order, tier, _spec_hash(), ','.join(invs + props))
    cp = _cache_path('idmc', key)
    if os.path.exists(cp):
        return json.load(open(cp))
    t0 = time.time()
    r = vlib.model_check('IdImpl', 'id_n%d' % n, {'Workers': set(range(1, workers[0] + 1)), 'N': n, 'ExitOrder': '"%s"' % order,
                                                   'MaxGen': workers[1]}, [], invariants=invs, properties=props,
                         spec='FairSpec' if props else 'Spec', workers=12, heap='8g', timeout=1700 if q else 7000,
                         workdir=os.path.join(OUT, 'work', 'mc.%d' % os.getpid()))
    if not r['ok'] and not r['violated']:
        raise InfraError('IdImpl model checking did not complete: ' + r['out'][-2000:])
    res = {'tag': 'N=%d workers=%d generations=%d' % (n, workers[0], workers[1]), 'ok': r['ok'], 'violated': r['violated'],
           'states': r['distinct'], 'transitions': r['states'], 'wall': round(time.time() - t0, 1), 'invariants': invs,
           'properties': props, 'exit_order': order}
    json.dump(res, open(cp, 'w'))
    return res


# ------------------------------------------------------------------------------------------------
# EpochManager: M (EpochImpl) with the exit order observed in the running code
# ------------------------------------------------------------------------------------------------
def epoch_model_check(group, tier, order):
    """group: 'pin' (C04), 'mono' (C16), 'list' (C17), 'seq' (C20).  Returns list of result dicts."""
    bdir = vlib.build(2)
    q = tier == 'quick'
    base = {'Cap': 2, 'Init0': 2, 'MaxGuards': 2, 'ExitOrder': '"%s"' % order}
    W2, W3 = {1, 2}, {1, 2, 3}
    if group == 'pin':
        cfgs = [('w2n1', dict(base, Workers=W2, N=1, MaxFwd=3, WithWalk=False, NoStall=False), ['C04', 'SlotOwner', 'ChainOK'], [], None)]
        if not q:
            cfgs += [('w3n2', dict(base, Workers=W3, N=2, MaxFwd=3, WithWalk=False, NoStall=False), ['C04', 'SlotOwner', 'ChainOK'], [], None),
                     ('w2n2f5', dict(base, Workers=W2, N=2, MaxFwd=5, WithWalk=False, NoStall=False), ['C04', 'SlotOwner', 'ChainOK'], [], None)]
    elif group == 'mono':
        cfgs = [('w2n1', dict(base, Workers=W2, N=1, MaxFwd=4, WithWalk=False, NoStall=False), ['MinLeCur', 'Quiescent'], ['OneStep'], None)]
        if not q:
            cfgs += [('w2n2', dict(base, Workers=W2, N=2, MaxFwd=5, WithWalk=False, NoStall=False), ['MinLeCur', 'Quiescent'], ['OneStep'], None)]
    elif group == 'seq':
        sq = ['SeqExact', 'ChainOK', 'MinLeCur']
        cfgs = [('w2n2f3', dict(base, Workers=W2, N=2, MaxFwd=3, MaxGuards=1, WithWalk=False, NoStall=False), sq, [], None),
                ('w1n1f6', dict(base, Workers={1}, N=1, MaxFwd=6, WithWalk=False, NoStall=False), sq, [], None)]     # node retirement
        if not q:
            cfgs += [('w2n2f5', dict(base, Workers=W2, N=2, MaxFwd=5, WithWalk=False, NoStall=False), sq, [], None),
                     ('w3n3f2', dict(base, Workers=W3, N=3, MaxFwd=2, MaxGuards=1, WithWalk=False, NoStall=False), sq, [], None)]
    else:
        cfgs = [('w1n1-nostall', dict(base, Workers={1}, N=1, MaxFwd=6, WithWalk=True, NoStall=True), ['NodeSafe', 'OwnList', 'ChainOK'], [], 'StallBound'),
                ('w1n1-free', dict(base, Workers={1}, N=1, MaxFwd=5, WithWalk=True, NoStall=False), ['NodeSafe', 'OwnList'], [], None)]
        if not q:
            cfgs += [('w2n2-nostall', dict(base, Workers=W2, N=2, MaxFwd=5, WithWalk=True, NoStall=True), ['NodeSafe', 'OwnList', 'ChainOK'], [],
                      'StallBound')]
    out = []
    for tag, consts, invs, props, con in cfgs:
        key = 'epmc|%s|%s|%s|%s|%s' % (os.path.basename(bdir), group, tag, order, _spec_hash())
        cp = _cache_path('epmc', key)
        if os.path.exists(cp):
            out.append(json.load(open(cp)))
            continue
        t0 = time.time()
        r = vlib.model_check('EpochImpl', 'ep_%s_%s' % (group, tag.replace('-', '_')), consts, [], invariants=invs, properties=props,
                             constraint=con, workers=12, heap='8g', timeout=1700 if q else 7000, workdir=os.path.join(OUT, 'work', 'mc.%d' % os.getpid()))
        if not r['ok'] and not r['violated']:
            raise InfraError('EpochImpl model checking did not complete: ' + r['out'][-2000:])
        cex = parse_cex(r['out']) if r['violated'] else None
        res = {'tag': tag, 'ok': r['ok'], 'violated': r['violated'], 'states': r['distinct'], 'transitions': r['states'],
               'wall': round(time.time() - t0, 1), 'invariants': invs, 'properties': props, 'constraint': con,
               'consts': {k: (sorted(v) if isinstance(v, (set, frozenset)) else v) for k, v in consts.items()},
               'cex': cex, 'cex_overlapped_forwards': cex_overlap(cex) if cex else None}
        json.dump(res, open(cp, 'w'))
        out.append(res)
    return out


def cex_overlap(cex):
    """largest number of forwards a single guard creation overlaps in a counterexample of EpochImpl"""
    active = False
    inside = {}
    best = 0
    for act, args in cex:
        if act == 'FLoad':
            active = True
            for w in inside:
                inside[w] += 1
                best = max(best, inside[w])
        elif act == 'FMin':
            active = False
        elif act == 'CTest':
            inside[args[0]] = 1 if active else 0
            best = max(best, inside[args[0]])
        elif act in ('WAt', 'Leave') or (act == 'EStore' and False):
            inside.pop(args[0], None) if act == 'Leave' else None
    return best


# ------------------------------------------------------------------------------------------------
# EpochManager: B1 conformance (EpochImplTrace) - one event per quantum of the real code
# ------------------------------------------------------------------------------------------------
EP_L2_FIELDS = ('t', 'i', 'v', 'm', 'x', 'n', 'nn')
EP_MAX = 999999


def _epval(hexs):
    v = int(hexs, 16)
    return EP_MAX if v == 0xFFFFFFFFFFFFFFFF else v


def epoch_l2_stream(ex):
    """Steps of one real execution in EpochImpl's vocabulary.  Returns (events, ok); ok False when the execution
    uses something the Level-2 model does not describe (then it is skipped, not rejected)."""
    evs = [e for e in ex.events if e.get('t', 0) > 0]
    if ex.status != 'ok' or any(e.get('e') in ('uaf', 'doublefree', 'give') or e.get('freed') == 1 for e in ex.events):
        return [], False
    ecap = 256
    ncap = None
    for e in ex.events:
        if e.get('e') == 'cfg':
            ecap = e.get('ecap', 256)
            ncap = e.get('cap')
    # next event of the same thread
    nxt = [None] * len(evs)
    last = {}
    for k in range(len(evs) - 1, -1, -1):
        t = evs[k]['t']
        nxt[k] = last.get(t)
        last[t] = k

    def off(loc):
        if loc == 'EM':
            return 0
        if loc.startswith('EM+'):
            return int(loc[3:])
        return None

    # slot of every thread (from its entered_ stores / re-binding points), base address of the ID flags
    slot_of = {}
    claim_addr = {}
    for e in evs:
        t = e['t']
        if e.get('e') == 'op' and e.get('site', '').startswith('epoch.cpp') and e['k'] == 'store':
            o = off(e['loc'])
            if o is not None and o >= 72 and (o - 72) % 64 == 0:
                slot_of.setdefault(t, (o - 72) // 64)
        elif e.get('e') == 'op' and e.get('site', '').startswith('id_manager.cpp') and e['k'] == 'xchg' and e['b'] == '0' \
                and e['loc'].startswith('@'):
            claim_addr[t] = int(e['loc'][1:], 16)
    base = None
    for t, a in claim_addr.items():
        if t in slot_of:
            b = a - slot_of[t]
            if base is not None and base != b:
                return [], False
            base = b
    node_range = {'PN1': 1}
    out = []
    ok = True
    in_fwd = {}
    phase = {}          # none | tested | loaded | stored | walking | held
    fload_v = {}
    last_pt_obj = {}
    flag_stored = set()

    def emit(kind, **kw):
        o = {'e': kind, 'list': kw.pop('list', [])}
        for f in EP_L2_FIELDS:
            o[f] = kw.get(f, -1)
        out.append(o)

    def next_of(k, skip=('free', 'uaf', 'alloc', 'ptr')):
        j = nxt[k]
        while j is not None and evs[j].get('e') in skip:
            j = nxt[j]
        return evs[j] if j is not None else None

    def node_of(obj):
        return node_range.get(obj.split('+')[0], -1)

    def flist_after(k, t):
        ne = next_of(k)
        n = node_of(ne['obj']) if ne and ne.get('e') == 'pt' and ne.get('name') == 'epoch.retire.delete' else 0
        emit('flist', t=t, n=n)

    for k, e in enumerate(evs):
        kind = e.get('e')
        t = e['t']
        if kind == 'fcall':
            in_fwd[t] = True
        elif kind == 'fdone':
            in_fwd[t] = False
        elif kind == 'alloc' and e.get('cls') == 'PN':
            node_range[e['n']] = (fload_v.get(t, 0) + 1) // ecap
        elif kind == 'op':
            site = e.get('site', '')
            o = off(e['loc'])
            if site.startswith('id_manager.cpp'):
                if e['k'] == 'xchg' and e['b'] == '0':
                    emit('claim', t=t, i=(int(e['loc'][1:], 16) - base) if (base is not None and e['loc'].startswith('@')) else -1)
                elif e['k'] == 'store':
                    flag_stored.add(t)
                    emit('exflag', t=t, i=(int(e['loc'][1:], 16) - base) if (base is not None and e['loc'].startswith('@')) else -1)
            elif site.startswith('epoch.cpp'):
                if e['k'] == 'load' and o == 0:
                    emit('eload', t=t, v=_epval(e['a']))
                    phase[t] = 'loaded'
                elif e['k'] == 'store' and o is not None and o >= 72 and (o - 72) % 64 == 0:
                    if _epval(e['a']) == EP_MAX:
                        emit('leave', t=t, i=(o - 72) // 64)
                        phase[t] = 'none'
                    else:
                        emit('estore', t=t, i=(o - 72) // 64, v=_epval(e['a']))
                        phase[t] = 'stored'
                elif e['k'] == 'load' and o is not None and o >= 72 and (o - 72) % 64 == 0:
                    if in_fwd.get(t):
                        i = (o - 72) // 64
                        emit('fread', t=t, i=i, v=_epval(e['a']))
                        if ncap is not None and i == ncap - 1:
                            flist_after(k, t)
                else:
                    ok = False
            elif site.startswith('epoch_manager.cpp'):
                if e['k'] == 'load' and o == 0:
                    if in_fwd.get(t):
                        ne = next_of(k, skip=('free', 'uaf'))
                        fload_v[t] = _epval(e['a'])
                        emit('fload', t=t, v=_epval(e['a']), nn=int(bool(ne and ne.get('e') == 'alloc' and ne.get('cls') == 'PN')))
                    else:
                        emit('rcur', t=t, v=_epval(e['a']))
                elif e['k'] == 'load' and o == 8:
                    emit('rmin', t=t, v=_epval(e['a']))
                elif e['k'] == 'store' and o == 0 and in_fwd.get(t):
                    emit('fpub', t=t, v=_epval(e['a']))
                elif e['k'] == 'store' and o == 8 and in_fwd.get(t):
                    emit('fmin', t=t, v=_epval(e['a']))
                else:
                    ok = False
            elif e.get('cls') == 'epoch':
                ok = False
        elif kind == 'pt':
            name = e.get('name')
            last_pt_obj[t] = e.get('obj', '')
            if name == 'epoch.walk.hop':
                if not in_fwd.get(t) and phase.get(t) == 'stored':
                    emit('whead', t=t, n=node_of(e['obj']))
                    phase[t] = 'walking'
            elif name == 'id.exit.mid':
                if t not in flag_stored:
                    emit('exhb', t=t)
        elif kind == 'ptr':
            name = e.get('name')
            if name == 'epoch.walk.hop':
                if not in_fwd.get(t) and phase.get(t) == 'walking':
                    ne = next_of(k)
                    if ne and ne.get('e') == 'pt' and ne.get('name') == 'epoch.walk.hop':
                        emit('wderef', t=t, n=node_of(ne['obj']), x=0)
                    else:
                        emit('wderef', t=t, n=0, x=1)
                        phase[t] = 'held'
            elif name == 'epoch.retire.delete':
                ne = next_of(k)
                nn = node_of(ne['obj']) if ne and ne.get('e') == 'pt' and ne.get('name') == 'epoch.retire.delete' else 0
                emit('fdelete', t=t, n=node_of(last_pt_obj.get(t, '')), nn=nn)
            elif name == 'id.exit.mid':
                if t in flag_stored:
                    emit('exhb', t=t)
        elif kind == 'wp':
            # operations on the heartbeat of a slot (instrumented std::weak_ptr): the tests and the re-binding of the model
            o = off(e.get('obj', ''))
            if o is None or o < 80 or (o - 80) % 64:
                ok = False
                continue
            i = (o - 80) // 64
            if e['k'] == 'expired' and in_fwd.get(t):
                emit('ftest', t=t, i=i, x=e['r'])
                if e['r'] == 1 and ncap is not None and i == ncap - 1:
                    flist_after(k, t)
            elif e['k'] == 'expired':
                emit('ctest', t=t, x=e['r'])
                phase[t] = 'tested'
            elif e['k'] == 'assign' and not in_fwd.get(t):
                emit('cbind', t=t)
            else:
                ok = False
        elif kind == 'gret':
            if phase.get(t) == 'stored':
                phase[t] = 'held'
            emit('gret', t=t, v=e['ep'], x=e.get('haslist', 0), list=e.get('list', []))
        elif kind == 'fobs':
            emit('fobs', t=t, v=e['cur'], m=e['min'], x=e.get('haslist', 0), list=e.get('list', []))
    return out, ok


def epoch_conformance(tier, seed=0):
    """B1 for the epoch manager: explored real executions must be step-for-step behaviours of EpochImpl."""
    import checks
    res_all = {'ok': True, 'streams': 0, 'executions': 0, 'events': 0, 'states': 0, 'transitions': 0, 'rejected': [], 'skipped': 0,
               'exit_order': None, 'capacities': []}
    q = tier == 'quick'
    key = 'epconf|%s|%s|%s|%s' % (os.path.basename(vlib.build(3)), os.path.basename(vlib.build(2)), tier, _spec_hash())
    cp = _cache_path('epconf', key)
    if os.path.exists(cp):
        return json.load(open(cp))
    order = id_conformance(2, tier, seed)['exit_order']
    res_all['exit_order'] = order
    if order == 'mixed':
        res_all['ok'] = False
        json.dump(res_all, open(cp, 'w'))
        return res_all
    plan = [(n, [p for p in progs if not any(s in p.split()[1] for s in ('ep_stall', 'ep_edge', 'ep_reuse_edge', 'ep_hand', 'ep_reuse_hold', 'ep_hold'))], par)
            for n, progs, par in checks.epoch_programs(tier, ('pin', 'mono', 'list'))]
    # node retirement (FDelete) needs more than two 256-epoch ranges: bulk forwards, a guard taken afterwards
    plan.append((3, [checks.ep_prog('ep_conf_retire', 3, ['BAR:1:2 GL RL D G D', 'FQ:515 BAR:1:2 F F F'])], dict(pb=1, max_exec=40)))
    plan.append((3, [checks.ep_prog('ep_conf_retire2', 3, ['GL BAR:1:2 BAR:2:2 RL D', 'BAR:1:2 FQ:600 F BAR:2:2 F FQ:300 F'])],
                 dict(pb=1, max_exec=30)))
    workdir = os.path.join(OUT, 'work', 'l2_ep.%d' % os.getpid())
    os.makedirs(workdir, exist_ok=True)
    by_cap = {}
    for n, progs, par in plan:
        if progs:
            by_cap.setdefault(n, []).append((progs, par))
    for n, items in sorted(by_cap.items()):
        bdir = vlib.build(n)
        execs = []
        for k, (progs, par) in enumerate(items):
            files = vlib.run_harness(bdir, 'threadh', [], progs, workdir, mode='dfs', pb=min(par.get('pb', 2), 2),
                                     max_exec=min(par.get('max_exec', 1000), 400 if q else 5000), seed=seed, tag='epconf%d_%d' % (n, k))
            execs.extend(e for f in files for e in vlib.iter_execs(f))
        skipped = [0]

        def proj(ex):
            st, ok = epoch_l2_stream(ex)
            if not ok or not st:
                skipped[0] += 1
                return []
            return st
        groups = [g for g in vlib.dedup_histories(execs, proj) if g[0]]
        hists = [g[0] for g in groups]
        reps = [g[1] for g in groups]
        cfg = vlib.write_cfg(os.path.join(SPEC, 'cfg', 'EpochImplTrace.tpl.cfg'), {'N': n, 'ExitOrder': order},
                             os.path.join(workdir, 'epconf%d.cfg' % n))
        rej, st = vlib.validate_until_clean(os.path.join(SPEC, 'EpochImplTrace.tla'), cfg, hists, workdir, 'epconf%d' % n, max_rounds=2)
        res_all['capacities'].append(n)
        res_all['streams'] += len(hists)
        res_all['executions'] += len(execs)
        res_all['skipped'] += skipped[0]
        res_all['events'] += st['events']
        res_all['states'] += st['distinct']
        res_all['transitions'] += st['states']
        for r in rej[:5]:
            h = hists[r['hist']]
            res_all['rejected'].append({'capacity': n, 'program': reps[r['hist']].prog, 'schedule': reps[r['hist']].sched, 'line': r['line'],
                                        'event': h[r['line']] if r['line'] < len(h) else None,
                                        'before': h[max(0, r['line'] - 3):r['line']]})
        if rej:
            res_all['ok'] = False
        if not hists or skipped[0] * 5 > len(execs):
            # (almost) nothing of what the code does could be expressed in the model's vocabulary: that is drift too
            res_all['ok'] = False
            res_all['rejected'].append({'capacity': n, 'program': None, 'line': None,
                                        'event': '%d of %d executions use operations EpochImpl does not have' % (skipped[0], len(execs))})
        if hists and not res_all.get('sample'):
            res_all['sample'] = {'program': reps[0].prog, 'schedule': reps[0].sched,
                                 'stream_head': [{k: v for k, v in e.items() if v not in (-1, [])} for e in hists[0][:14]]}
    json.dump(res_all, open(cp, 'w'))
    import shutil
    shutil.rmtree(workdir, ignore_errors=True)
    return res_all


# ------------------------------------------------------------------------------------------------
# B3': behaviours generated from the specification drive the real code (model-based test generation)
# ------------------------------------------------------------------------------------------------
EDGE = re.compile(r'^(-?\d+) -> (-?\d+) \[label="((?:[^"\\]|\\.)*)"')
NODE0 = re.compile(r'^(-?\d+) \[label=.*style = filled\]')


def walk_config(cls, tier):
    """state graphs the walks are generated from: small enough that the paths cover every edge in the quick tier"""
    q = tier == 'quick'
    if cls == 'pess':
        return ('w_t2o2' if q else 'w_t3o1', dict(MO='<- MOlearnt', Threads={1, 2} if q else {1, 2, 3}, MaxOps=2 if q else 1, WithHB=False), [])
    if cls == 'opt':
        return ('w_t2o1' if q else 'w_t2o2', dict(MO='<- MOlearnt', VHi=1, VLo=8, Retry=1, SetVers='<- SV', WithOpt=True, Threads={1, 2},
                                                   MaxOps=1 if q else 2, WithHB=False), ['SV == {<<0, 0>>, <<0, 2>>}'])    # VLo: no wrap-around within a walk
    return ('w_t2o1' if q else 'w_t2o2', dict(MO='<- MOlearnt', WithConv=True, Allowed='<- AllM', Threads={1, 2}, MaxOps=1 if q else 2,
                                               NNodes=2 if q else 4, WithHB=False), ['AllM == [t \\in Threads |-> {"S", "SIX", "X"}]'])


def parse_label(lab):
    lab = lab.replace('\\"', '"')
    m = re.match(r'(\w+)(?:\((.*)\))?$', lab)
    if not m:
        return lab, []
    args = [a.strip().strip('"') for a in m.group(2).split(',')] if m.group(2) else []
    return m.group(1), args


def load_graph(dot):
    """adjacency of TLC's state-graph dump: {state: [(label, next)]}, initial states"""
    adj = {}
    inits = []
    with open(dot, errors='replace') as f:
        for line in f:
            m = EDGE.match(line)
            if m:
                a, b, lab = m.group(1), m.group(2), m.group(3)
                if a != b:
                    adj.setdefault(a, []).append((lab, b))
                    adj.setdefault(b, [])
                continue
            m = NODE0.match(line)
            if m:
                inits.append(m.group(1))
                adj.setdefault(m.group(1), [])
    return adj, inits


def cover_paths(adj, inits, max_paths, seed=0):
    """paths from the initial state to a terminal state that together cover as many edges as the budget allows:
    every path goes (along the BFS tree) to a state with an uncovered outgoing edge, takes it, and then keeps
    following uncovered edges (a random edge when none is left) until no action is enabled"""
    import random, collections
    rnd = random.Random(seed)
    init = inits[0]
    parent = {init: None}
    order = [init]
    dq = collections.deque([init])
    while dq:
        u = dq.popleft()
        for k, (lab, v) in enumerate(adj[u]):
            if v not in parent:
                parent[v] = (u, k)
                order.append(v)
                dq.append(v)
    total = sum(len(adj[u]) for u in order)
    covered = set()
    pending = [(u, k) for u in order for k in range(len(adj[u]))]      # BFS order: shallow edges first
    pos = 0
    paths = []
    while len(paths) < max_paths and pos < len(pending):
        while pos < len(pending) and pending[pos] in covered:
            pos += 1
        if pos >= len(pending):
            break
        u0, k0 = pending[pos]
        chain = []
        u = u0
        while parent[u] is not None:
            chain.append(parent[u])
            u = parent[u][0]
        chain.reverse()
        path = []
        for (u, k) in chain + [(u0, k0)]:
            covered.add((u, k))
            path.append(adj[u][k][0])
        cur = adj[u0][k0][1]
        steps = len(path)
        while adj[cur] and steps < 400:
            unc = [k for k in range(len(adj[cur])) if (cur, k) not in covered]
            k = rnd.choice(unc) if unc else rnd.randrange(len(adj[cur]))
            covered.add((cur, k))
            path.append(adj[cur][k][0])
            cur = adj[cur][k][1]
            steps += 1
        paths.append(path)
    return paths, len(covered), total


def model_walks(cls, tier, mo, seed=0):
    """Generate behaviours of <Cls>Impl from TLC's state graph, run each on the real code (program + schedule) and return
    the executions with the intended schedule; cached per source tree."""
    import checks
    bdir = vlib.build(4)
    key = 'walk|%s|%s|%s|%s|%s' % (os.path.basename(bdir), cls, tier, json.dumps(mo, sort_keys=True), _spec_hash())
    cp = _cache_path('walk', key)
    if os.path.exists(cp):
        return json.load(open(cp))
    q = tier == 'quick'
    tag, consts, defs = walk_config(cls, tier)
    workdir = os.path.join(OUT, 'work', 'walk_%s.%d' % (cls, os.getpid()))
    os.makedirs(workdir, exist_ok=True)
    dump = os.path.join(workdir, 'graph')
    t0 = time.time()
    r = vlib.model_check(CLS_MODULE[cls], '%s_%s' % (cls, tag), consts, [vlib.mo_def(mo)] + defs, invariants=['Compat'], spec='Spec',
                         workers=4, heap='8g', timeout=1500, workdir=workdir, extra=('-dump', 'dot,actionlabels', dump))
    if not r['ok']:
        raise InfraError('state-graph dump of %s failed: %s' % (cls, r['out'][-1500:]))
    adj, inits = load_graph(dump + '.dot')
    os.unlink(dump + '.dot')
    paths, ncov, total = cover_paths(adj, inits, 2500 if q else 40000, seed)
    progs = []
    intended = {}
    for k, path in enumerate(paths):
        steps = [parse_label(lab) for lab in path]
        prog, sched = cex_to_program(cls, steps)
        if prog is None:
            continue
        name = 'walk_%s_%d' % (cls, k)
        prog = prog.replace('P cex_%s %s' % (cls, cls), 'P %s %s sched=%s' % (name, cls, sched), 1)
        progs.append(prog)
        intended[name] = sched
    files = vlib.run_harness(bdir, 'lockh', [cls], progs, workdir, mode='psched', tag='walk')
    execs = [e for f in files for e in vlib.iter_execs(f)]
    ptext = {p.split()[1]: p for p in progs}
    status = {}
    faithful = 0
    for ex in execs:
        status[ex.status] = status.get(ex.status, 0) + 1
        want = intended.get(ex.prog, '')
        nthreads = len(set(want.split(','))) if want else 0
        if ex.status == 'ok' and ex.sched.startswith(want):
            faithful += 1
    # B1 + B2 on the resulting executions
    okx = [e for e in execs if e.status not in ('steplimit', 'diverged', 'logfull')]

    def proj1(ex):
        if ex.status != 'ok':
            return []
        st, ok = (vlib.l2_stream_mcs(ex) if cls == 'mcs' else vlib.l2_stream(ex, cls))
        if not ok:
            return []
        return [vlib.norm_l2(x, cls) for x in st if x['e'] in ('call', 'op', 'ret', 'setv', 'texit') and not (cls != 'mcs' and x['e'] == 'texit')]
    g1 = [g for g in vlib.dedup_histories(okx, proj1) if g[0]]
    mod = CLS_MODULE[cls]
    rej1, st1 = vlib.validate_until_clean(os.path.join(SPEC, mod + 'Trace.tla'), os.path.join(SPEC, 'cfg', mod + 'Trace.cfg'),
                                          [g[0] for g in g1], workdir, 'walkb1', max_rounds=2)
    sw = ['CkCompat', 'CkProgress', 'CkGuards', 'CkConvAtomic'] + (['CkOptimistic', 'CkVersion', 'CkPrepare'] if cls == 'opt' else []) + \
         (['CkFifo'] if cls == 'mcs' else [])
    g2 = vlib.dedup_histories(okx, lambda ex: vlib.api_history(ex, fifo=(cls == 'mcs')))
    cfg = checks.lock_cfg(sw, workdir, 'walkabs')
    rej2, st2 = vlib.validate_until_clean(os.path.join(SPEC, 'LockAbsTrace.tla'), cfg, [g[0] for g in g2], workdir, 'walkb2', max_rounds=2)
    res = {'cls': cls, 'config': tag, 'model_states': r['distinct'], 'model_edges': total, 'edges_on_generated_paths': ncov,
           'paths': len(paths), 'programs_run': len(execs), 'exec_status': status, 'followed_intended_schedule': faithful,
           'b1_streams': len(g1), 'b1_rejected': [{'program': ptext[g1[x['hist']][1].prog], 'schedule': g1[x['hist']][1].sched, 'line': x['line']}
                                                 for x in rej1[:5]],
           'b2_histories': len(g2), 'b2_switches': sw,
           'b2_rejected': [{'program': ptext[g2[x['hist']][1].prog], 'schedule': g2[x['hist']][1].sched, 'line': x['line'],
                            'event': (g2[x['hist']][0][x['line']] if x['line'] < len(g2[x['hist']][0]) else None)} for x in rej2[:5]],
           'states': st1['distinct'] + st2['distinct'], 'transitions': st1['states'] + st2['states'],
           'events': st1['events'] + st2['events'], 'wall': round(time.time() - t0, 1),
           'not_ok': [{'program': ptext[e.prog], 'status': e.status, 'schedule': e.sched[:200]} for e in execs if e.status not in ('ok', 'diverged')][:4],
           'sample': {'path': paths[0][:24], 'program': progs[0] if progs else None}}
    json.dump(res, open(cp, 'w'))
    import shutil
    shutil.rmtree(workdir, ignore_errors=True)
    return res
