#!/usr/bin/env python3
"""Level-2 machinery shared by the lock checks:
   B1  conformance of real operation streams to <Cls>Impl (TLC trace validation) and
   B4  the memory-order table learnt while matching (printed by the trace specification),
   M   TLC model checking of <Cls>Impl instantiated with the learnt table,
   B3  replay of a TLC counterexample as program + schedule in the real code.
Results of B1/B4 and of each model-checking configuration are cached per source-tree hash."""
import os, re, json, time, hashlib
import vlib, programs
from vlib import InfraError, log, OUT, SPEC, CACHE

CLS_MODULE = {'pess': 'PessImpl', 'opt': 'OptImpl', 'mcs': 'McsImpl'}
CONV = ('UPG', 'DNG', 'UPDN', 'DNUP')
MODES3 = ('S', 'SIX', 'X')


def _cache_path(kind, key):
    os.makedirs(CACHE, exist_ok=True)
    return os.path.join(CACHE, 'l2_%s_%s.json' % (kind, hashlib.sha256(key.encode()).hexdigest()[:20]))


def _spec_hash():
    h = hashlib.sha256()
    for f in sorted(os.listdir(SPEC)):
        p = os.path.join(SPEC, f)
        if os.path.isfile(p):
            h.update(open(p, 'rb').read())
    for f in ('level2.py', 'vlib.py', 'programs.py'):
        h.update(open(os.path.join(os.path.dirname(os.path.abspath(__file__)), f), 'rb').read())
    return h.hexdigest()[:12]


# ------------------------------------------------------------------------------------------------
# B1 + B4
# ------------------------------------------------------------------------------------------------
def conformance_programs(cls, tier):
    q = tier == 'quick'
    lib = programs.COMMON_SCRIPTS + (programs.OPT_SCRIPTS + ('XSV0', 'GTXX') if cls == 'opt' else ())
    plan = [(programs.cross2(cls, lib), dict(pb=2, max_exec=300 if q else 4000)),
            (programs.cross3(cls, CONV + ('X',), MODES3, MODES3), dict(pb=1 if q else 2, max_exec=150 if q else 3000)),
            (programs.four(cls), dict(pb=1, max_exec=100 if q else 1500))]
    if cls == 'opt':
        plan.append((programs.cross3(cls, ('GTX', 'GTI', 'PRV', 'GVV'), ('X', 'DNG', 'XSV'), MODES3), dict(pb=1, max_exec=150 if q else 3000)))
    return plan


def conformance(cls, tier, seed=0):
    """Returns dict(ok, streams, events, rejected[], mo{site: order}, drift_note)"""
    bdir = vlib.build(4)
    key = 'conf|%s|%s|%s|%s' % (os.path.basename(bdir), cls, tier, _spec_hash())
    cp = _cache_path('conf', key)
    if os.path.exists(cp):
        return json.load(open(cp))
    import checks
    workdir = os.path.join(OUT, 'work', 'l2_' + cls)
    os.makedirs(workdir, exist_ok=True)
    execs = []
    ptext = {}
    t0 = time.time()
    for k, (progs, par) in enumerate(conformance_programs(cls, tier)):
        for p in progs:
            ptext[p.split()[1]] = p
        execs.extend(checks.explore_lock(bdir, cls, progs, workdir, par['pb'], par['max_exec'], seed, tag='conf%d' % k))

    def proj(ex):
        if ex.status != 'ok':
            return []
        st, ok = (vlib.l2_stream_mcs(ex) if cls == 'mcs' else vlib.l2_stream(ex, cls))
        if not ok:
            return []
        return [vlib.norm_l2(x, cls) for x in st if x['e'] in ('call', 'op', 'ret', 'setv', 'texit')
                and not (cls != 'mcs' and x['e'] == 'texit')]
    groups = [g for g in vlib.dedup_histories(execs, proj) if g[0]]
    hists = [g[0] for g in groups]
    reps = [g[1] for g in groups]
    mod = CLS_MODULE[cls]
    rej, st = vlib.validate_until_clean(os.path.join(SPEC, mod + 'Trace.tla'), os.path.join(SPEC, 'cfg', mod + 'Trace.cfg'), hists,
                                        workdir, 'conf', max_rounds=2)
    mo = {}
    conflict = []
    for site, orders in st.get('mo', {}).items():
        if len(orders) > 1:
            conflict.append(site)
        mo[site] = sorted(orders)[0]
    res = {'ok': not rej and not conflict, 'streams': len(hists), 'executions': len(execs), 'events': st['events'],
           'states': st['distinct'], 'transitions': st['states'], 'mo': mo, 'mo_conflicts': conflict,
           'rejected': [{'program': reps[r['hist']].prog, 'schedule': reps[r['hist']].sched, 'line': r['line'],
                         'event': hists[r['hist']][r['line']] if r['line'] < len(hists[r['hist']]) else None} for r in rej[:5]],
           'wall': round(time.time() - t0, 1),
           'sample': {'program': reps[0].prog, 'schedule': reps[0].sched,
                      'stream_head': [{k: v for k, v in e.items() if v not in (-1, '-')} for e in hists[0][:12]]} if hists else None}
    json.dump(res, open(cp, 'w'))
    return res


# ------------------------------------------------------------------------------------------------
# M: model-checking configurations per class and property group
# ------------------------------------------------------------------------------------------------
def mc_configs(cls, group, tier):
    """list of (tag, consts, extra defs, invariants, properties, spec)"""
    q = tier == 'quick'
    T2, T3 = {1, 2}, {1, 2, 3}
    if cls == 'pess':
        base = {'MO': '<- MOlearnt'}
        if group == 'safety':
            cfgs = [('t3o2', dict(base, Threads=T3, MaxOps=2, WithHB=False))] if q else \
                   [('t3o3', dict(base, Threads=T3, MaxOps=3, WithHB=False)), ('t4o2', dict(base, Threads={1, 2, 3, 4}, MaxOps=2, WithHB=False))]
            return [(t, c, [], ['Compat', 'WordOK', 'NoDeadlock', 'FreeAtEnd'], ['Termination'], 'FairSpec') for t, c in cfgs]
        if group == 'hb':
            cfgs = [('t2o3', dict(base, Threads=T2, MaxOps=3, WithHB=True))] if q else \
                   [('t2o4', dict(base, Threads=T2, MaxOps=4, WithHB=True)), ('t3o2', dict(base, Threads=T3, MaxOps=2, WithHB=True))]
            return [(t, c, [], ['Compat', 'HB'], [], 'Spec') for t, c in cfgs]
    if cls == 'opt':
        base = {'MO': '<- MOlearnt', 'VHi': 1, 'VLo': 3, 'Retry': 1, 'SetVers': '<- SV', 'WithOpt': True}
        defs = ['SV == {<<0, 0>>, <<0, 2>>}']
        if group == 'safety':
            cfgs = [('t2o2', dict(base, Threads=T2, MaxOps=2, WithHB=False))] if q else \
                   [('t2o3', dict(base, Threads=T2, MaxOps=3, WithHB=False)), ('t3o1', dict(base, Threads=T3, MaxOps=1, WithHB=False)),
                    ('t2o2w', dict(base, Threads=T2, MaxOps=2, WithHB=False, VHi=2, VLo=2))]
            return [(t, c, defs, ['Compat', 'WordOK', 'NoDeadlock', 'FreeAtEnd', 'VerOK'],
                     ['Termination', 'OptSound', 'OptComplete', 'SampleOK', 'PrepareOK'], 'FairSpec') for t, c in cfgs]
        if group == 'hb':
            defs2 = ['SV == {<<0, 0>>}']
            cfgs = [('t2o2', dict(base, Threads=T2, MaxOps=2, WithHB=True))] if q else \
                   [('t2o3', dict(base, Threads=T2, MaxOps=3, WithHB=True)), ('t3o1', dict(base, Threads=T3, MaxOps=1, WithHB=True))]
            return [(t, c, defs2, ['Compat', 'HB'], [], 'Spec') for t, c in cfgs]
    if cls == 'mcs':
        base = {'MO': '<- MOlearnt', 'WithConv': True, 'Allowed': '<- AllM'}
        defs = ['AllM == [t \\in Threads |-> {"S", "SIX", "X"}]']
        d3 = ['AllM == [t \\in Threads |-> CASE t = 1 -> {"X", "SIX"} [] t = 2 -> {"S"} [] OTHER -> {"X", "S"}]']
        inv = ['Compat', 'NoDeadlock', 'FreeAtEnd', 'Fifo', 'NodeSafe', 'GuardNodes', 'LiveBound']
        if group == 'safety':
            out = [('t2o2', dict(base, Threads=T2, MaxOps=2, NNodes=4, WithHB=False), defs, inv, ['Termination'], 'FairSpec')]
            if not q:
                out = [('t2o3', dict(base, Threads=T2, MaxOps=3, NNodes=6, WithHB=False), defs, inv, ['Termination'], 'FairSpec'),
                       ('t3o1', dict(base, Threads=T3, MaxOps=1, NNodes=3, WithHB=False), defs, inv, ['Termination'], 'FairSpec'),
                       ('t3o2r', dict(base, Threads=T3, MaxOps=2, NNodes=6, WithHB=False, WithConv=False), d3, inv, [], 'Spec')]
            return out
        if group == 'hb':
            out = [('t2o2', dict(base, Threads=T2, MaxOps=2, NNodes=4, WithHB=True), defs, ['Compat', 'HB'], [], 'Spec')]
            if not q:
                out = [('t2o3', dict(base, Threads=T2, MaxOps=3, NNodes=6, WithHB=True), defs, ['Compat', 'HB'], [], 'Spec'),
                       ('t3o1', dict(base, Threads=T3, MaxOps=1, NNodes=3, WithHB=True), defs, ['Compat', 'HB'], [], 'Spec')]
            return out
    raise ValueError((cls, group))


def model_check(cls, group, tier, mo, want=None):
    """Run (or fetch from the cache) every configuration of a group, restricted to the invariants / properties
    named in `want` (None = all); returns list of result dicts."""
    bdir = vlib.build(4)
    out = []
    for tag, consts, defs, invs, props, spec in mc_configs(cls, group, tier):
        if want is not None:
            invs = [i for i in invs if i in want]
            props = [i for i in props if i in want]
            if not invs and not props:
                continue
            if not props:
                spec = 'Spec'
        key = 'mc|%s|%s|%s|%s|%s|%s|%s' % (os.path.basename(bdir), cls, group, tag, json.dumps(mo, sort_keys=True), _spec_hash(),
                                          ','.join(invs + props))
        cp = _cache_path('mc', key)
        if os.path.exists(cp):
            out.append(json.load(open(cp)))
            continue
        t0 = time.time()
        r = vlib.model_check(CLS_MODULE[cls], '%s_%s_%s' % (cls, group, tag), consts, [vlib.mo_def(mo)] + defs, invariants=invs,
                             properties=props, spec=spec, workers=12, heap='12g', timeout=1700 if tier == 'quick' else 7000,
                             workdir=os.path.join(OUT, 'work', 'mc'))
        res = {'cls': cls, 'group': group, 'tag': tag, 'ok': r['ok'], 'violated': r['violated'], 'states': r['distinct'],
               'transitions': r['states'], 'wall': round(time.time() - t0, 1), 'invariants': invs, 'properties': props,
               'consts': {k: (sorted(v) if isinstance(v, (set, frozenset)) else v) for k, v in consts.items()},
               'cex': parse_cex(r['out']) if r['violated'] else None}
        if not r['ok'] and not r['violated']:
            raise InfraError('model checking %s/%s/%s did not complete:\n%s' % (cls, group, tag, r['out'][-2000:]))
        json.dump(res, open(cp, 'w'))
        out.append(res)
    return out


# ------------------------------------------------------------------------------------------------
# B3: a TLC counterexample as program + schedule for the real code
# ------------------------------------------------------------------------------------------------
ACT = re.compile(r'^State \d+: <(\w+)\(([^)]*)\) line')


def parse_cex(tlc_out):
    """[(action, [args])] of the error trace (initial state excluded)"""
    steps = []
    for line in tlc_out.splitlines():
        m = ACT.match(line.strip())
        if m:
            args = [a.strip().strip('"') for a in m.group(2).split(',')] if m.group(2).strip() else []
            steps.append((m.group(1), args))
    return steps


NO_QUANTUM = {'Ret', 'LXG', 'LSG', 'Exit', 'Grant'}


def cex_to_program(cls, steps):
    """Program line and schedule that drive the real code along a counterexample of <Cls>Impl."""
    ths = {}
    cur = {}      # thread -> (kind, guard id) currently owning
    og = {}
    g = [0]
    sched = []

    def new():
        g[0] += 1
        return g[0]
    pre = {'S': 's', 'SIX': 'i', 'X': 'x'}
    leftovers = {}
    for act, args in steps:
        if not args:
            continue
        try:
            t = int(args[0])
        except ValueError:
            continue
        ops = ths.setdefault(t, [])
        if act == 'CallLock':
            m = args[1]
            k = new()
            ops.append('%s:%s%d:1' % (m, pre[m], k))
            cur[t] = (m, k)
        elif act == 'CallUnlock':
            if t in cur:
                m, k = cur.pop(t)
                ops.append('U:%s%d' % (pre[m] if m != 'C' else 'c', k))
        elif act == 'CallUpgrade':
            m, k = cur[t]
            h = new()
            ops.append('UP:i%d:x%d' % (k, h))
            leftovers.setdefault(t, []).append('U:i%d' % k)
            cur[t] = ('X', h)
        elif act == 'CallDowngrade':
            m, k = cur[t]
            h = new()
            ops.append('DN:x%d:i%d' % (k, h))
            leftovers.setdefault(t, []).append('U:x%d' % k)
            cur[t] = ('SIX', h)
        elif act == 'CallGetVersion':
            k = new()
            og[t] = ('o', k)
            ops.append('GV:o%d:1' % k)
        elif act == 'CallVerify':
            kind, k = og[t]
            ops.append(('VV:o%d' if kind == 'o' else 'CV:c%d') % k)
        elif act == 'CallCVerify':
            ops.append('CV:c%d' % cur[t][1])
        elif act == 'CallTryLock':
            m = args[1]
            kind, k = og[t]
            h = new()
            ops.append('%s:o%d:%s%d' % ({'S': 'TS', 'SIX': 'TI', 'X': 'TX'}[m], k, pre[m], h))
            cur[t] = (m, h)          # if the try fails in the real run the later U is a no-op
        elif act == 'CallPrepare':
            k = new()
            og[t] = ('c', k)
            cur[t] = ('C', k)
            ops.append('PR:c%d:1' % k)
        elif act == 'SetVersion':
            m, k = cur[t]
            nums = re.findall(r'-?\d+', ','.join(args[1:]))
            v = int(nums[0]) * 65536 + int(nums[1]) if len(nums) >= 2 else 0
            ops.append('SV:x%d:%d' % (k, v))
        if act not in NO_QUANTUM:
            sched.append(t)
    n = max(ths) if ths else 0
    lines = []
    for t in range(1, n + 1):
        ops = list(ths.get(t, []))
        if t in cur:
            m, k = cur[t]
            ops.append('U:%s%d' % (pre.get(m, 'c'), k))
        ops.extend(leftovers.get(t, []))
        lines.append(' '.join(ops) if ops else 'D:s%d' % new())
    if g[0] > 11:
        return None, None
    prog = 'P cex_%s %s | %s %s' % (cls, cls, ' | '.join(lines), programs.fin(cls))
    return prog, ','.join(str(x) for x in sched)


def replay_cex(cls, steps, workdir):
    """Run the real code along the counterexample; returns the resulting execution (or None)."""
    prog, sched = cex_to_program(cls, steps)
    if prog is None:
        return None, None
    bdir = vlib.build(4)
    exs = vlib.replay(bdir, 'lockh', [cls], prog, sched, workdir, tag='cex')
    return (exs[0] if exs else None), prog
