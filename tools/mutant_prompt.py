#!/usr/bin/env python3
"""Print the prompt given to a fresh sub-agent that seeds a property-breaking change.
Only the property text and the scratch worktree path are passed on (nothing from /verif)."""
import json, sys
pid, wt = sys.argv[1], sys.argv[2]
for l in open('/verif/properties.jsonl'):
    p = json.loads(l)
    if p['id'] == pid: break
else: sys.exit('no such property')
print(f"""You are helping to evaluate a verification framework by seeding realistic bugs into a small C++20 library (dbgroup-nagoya-u/cpp-utility: S/SIX/X pessimistic, optimistic and MCS queue locks, an epoch-based reclamation manager, a thread-ID manager, Zipf random generators).

Your own scratch git worktree of the library is at {wt} (a detached checkout; work ONLY inside that directory; never touch /repo or /verif, and do not read anything under /verif).

The semantic property to break:

  Title: {p['title']}
  Statement: {p['statement']}
  Quantified over: {p['quantifier']['text']}
  Relevant files: {', '.join(p['anchors']['files'])}

Task: produce TWO different, independent source changes to the library (call them A and B; each is a change to files under include/ and/or src/ only, not to tests or build files) such that each change on its own
  1. still compiles,
  2. still passes the library's existing test suite, and
  3. violates the property above,
and, for each, a demonstration (a small stand-alone C++ program and a shell script that builds and runs it) that FAILS (non-zero exit) with the change applied and PASSES (exit 0) on the unchanged tree.

What kind of change: realistic mistakes a maintainer could make in a refactoring or an optimisation (a weakened condition, a dropped or reordered step, an off-by-one, a wrong mask or constant, a wrong memory order if the property is about ordering, a missed case in one of several code paths, two sites that each look fine alone). The violation must need something specific to manifest: a particular interleaving of threads, a multi-step sequence of operations, an unusual input or configuration, or a specific timing window. Do NOT produce changes that ordinary single-threaded use or the most basic usage would expose at once, and do not produce changes that break the existing tests. Make A and B different in kind (different functions / different mechanisms).

Build and test commands (offline sandbox, no network):
  cd {wt}
  cmake -G Ninja -B _build -DCPP_UTILITY_BUILD_TESTS=ON -DFETCHCONTENT_SOURCE_DIR_GOOGLETEST=/usr/src/googletest -DCMAKE_BUILD_TYPE=RelWithDebInfo -DDBGROUP_MAX_THREAD_NUM="(2 * 8)" >/dev/null
  cmake --build _build -j8
  ctest --test-dir _build -j8 --timeout 300        # all 8 test programs must pass; run it 3 times, it must pass every time
A stand-alone demo can be compiled directly, e.g.
  g++ -std=c++20 -O1 -g -pthread -Iinclude -DDBGROUP_MAX_THREAD_NUM=16 -DCPP_UTILITY_SPINLOCK_RETRY_NUM=10 -DCPP_UTILITY_BACKOFF_TIME=10 -DCPP_UTILITY_HAS_SPINLOCK_HINT demo.cpp src/lock/*.cpp src/thread/*.cpp src/thread/component/*.cpp src/random/*.cpp -o demo
(you may pass other -D values, e.g. a small DBGROUP_MAX_THREAD_NUM, if the demonstration needs them; sanitizers such as -fsanitize=thread or -fsanitize=address are available with g++ and clang++-14 and may be used by the demo when the violation has no other visible symptom). A demo may force the needed interleaving with sleeps, barriers, many iterations or by calling the library in a carefully chosen order; it should be reasonably deterministic (fails in at least 9 of 10 runs with the change, passes 10 of 10 without) and finish within 60 seconds (use a watchdog/timeout and treat a hang as failure when the violation is a hang).

Deliverables, inside the worktree (create these directories; they are untracked files, do not commit):
  {wt}/MUTANT_A/patch.diff    the change as `git diff` output against HEAD (only library sources)
  {wt}/MUTANT_A/demo.cpp      the demonstration program
  {wt}/MUTANT_A/run_demo.sh   builds and runs the demo against the current state of the worktree (exit 0 = property held, non-zero = violated); must work with `bash MUTANT_A/run_demo.sh` from the worktree root
  {wt}/MUTANT_A/meta.json     {{"property": "{pid}", "summary": "...what the change does...", "needs": "...what is needed for the violation to manifest...", "files": [...], "how_verified": "...commands you ran and what you saw..."}}
and the same under MUTANT_B/.
When you are done the worktree's tracked files must be back to HEAD (git checkout -- .), with only MUTANT_A/ and MUTANT_B/ (and optionally _build/) left as untracked content; remove _build at the end to save disk (rm -rf {wt}/_build).

Before finishing, verify for each of A and B, yourself: apply patch → build → ctest passes 3 times → demo fails; revert → demo passes. Report in your final message a 3-line summary per mutant. If you cannot find a change that keeps the test suite green for one of them, deliver only one and say so.""")
