#!/usr/bin/env python3
"""Client programs for the lock harness.  A program is one text line:
   P <name> <cls> [|< init ops] | thread-1 ops | thread-2 ops ... [|| final ops]
Guard tokens are <kind><n>: s=SGuard i=SIXGuard x=XGuard o=OptGuard c=CompositeGuard, n unique."""
import itertools, random

PRE = {'S': 's', 'SIX': 'i', 'X': 'x'}
MODES = ('S', 'SIX', 'X')
FINAL = '|| X:x12:1 U:x12'
FINAL_OPT = '|| GV:o11:1 X:x12:1 XV:x12 U:x12 GV:o11:1'


def fin(cls):
    return FINAL_OPT if cls == 'opt' else FINAL


def sec(mode, g, lock=1):
    return '%s:%s%d:%d U:%s%d' % (mode, PRE[mode], g, lock, PRE[mode], g)


def pairs(cls):
    out = []
    for a in MODES:
        for b in MODES:
            out.append('P %s_pair_%s_%s %s | %s | %s %s' % (cls, a, b, cls, sec(a, 1), sec(b, 2), fin(cls)))
    return out


def conv(cls):
    """upgrade/downgrade chains racing with one other request"""
    out = []
    for b in MODES:
        out.append('P %s_conv1_%s %s | SIX:i1:1 UP:i1:x2 DN:x2:i3 U:i3 U:x2 U:i1 | %s %s'
                   % (cls, b, cls, sec(b, 4), fin(cls)))
        out.append('P %s_conv2_%s %s | X:x1:1 DN:x1:i2 UP:i2:x3 U:x3 U:i2 U:x1 | %s %s'
                   % (cls, b, cls, sec(b, 4), fin(cls)))
    return out


def conv3(cls):
    """conversion with two other threads (a shared holder that must drain and a queued request)"""
    out = []
    for b, c in (('S', 'X'), ('S', 'SIX'), ('S', 'S'), ('X', 'SIX')):
        out.append('P %s_conv3_%s_%s %s | SIX:i1:1 UP:i1:x2 U:x2 U:i1 | %s | %s %s'
                   % (cls, b, c, cls, sec(b, 4), sec(c, 5), fin(cls)))
    out.append('P %s_conv3d_S_X %s | X:x1:1 DN:x1:i2 U:i2 U:x1 | %s | %s %s' % (cls, cls, sec('S', 4), sec('X', 5), fin(cls)))
    return out


def triples(cls, subset=None):
    combos = subset or [('S', 'S', 'X'), ('S', 'X', 'S'), ('X', 'S', 'S'), ('SIX', 'S', 'X'), ('S', 'SIX', 'SIX'),
                        ('X', 'X', 'X'), ('SIX', 'X', 'S'), ('X', 'SIX', 'S'), ('S', 'S', 'SIX')]
    out = []
    for a, b, c in combos:
        out.append('P %s_tri_%s_%s_%s %s | %s | %s | %s %s' % (cls, a, b, c, cls, sec(a, 1), sec(b, 2), sec(c, 3), fin(cls)))
    return out


def twosec(cls):
    """two threads, two sections each (node reuse, re-acquisition)"""
    out = []
    for a, b, c, d in (('X', 'S', 'S', 'X'), ('S', 'X', 'X', 'S'), ('SIX', 'S', 'X', 'SIX'), ('S', 'S', 'SIX', 'X'),
                       ('X', 'X', 'X', 'X')):
        out.append('P %s_two_%s%s_%s%s %s | %s %s | %s %s %s'
                   % (cls, a, b, c, d, cls, sec(a, 1), sec(b, 2), sec(c, 3), sec(d, 4), fin(cls)))
    return out


def guards(cls):
    """guard life cycle: default, move construction/assignment, conversion results, destruction"""
    out = []
    k = cls
    out.append('P %s_g_move_S %s | D:s1 S:s2:1 B:s2 MV:s2:s3 B:s2 B:s3 MA:s3:s1 B:s1 B:s3 U:s3 U:s2 U:s1 | %s %s'
               % (k, k, sec('X', 4), fin(cls)))
    out.append('P %s_g_move_X %s | D:x1 X:x2:1 MV:x2:x3 B:x2 B:x3 MA:x3:x1 B:x1 B:x3 U:x2 U:x3 U:x1 | %s %s'
               % (k, k, sec('S', 4), fin(cls)))
    out.append('P %s_g_move_SIX %s | D:i1 SIX:i2:1 MV:i2:i3 B:i2 MA:i3:i1 B:i1 B:i3 U:i1 U:i2 U:i3 | %s %s'
               % (k, k, sec('SIX', 4), fin(cls)))
    # move assignment over an owning guard releases its grant first
    out.append('P %s_g_assign_over %s | S:s1:1 S:s2:2 MA:s1:s2 B:s1 B:s2 U:s2 U:s1 | X:x3:2 U:x3 X:x4:1 U:x4 %s'
               % (k, k, fin(cls)))
    out.append('P %s_g_assign_overX %s | X:x1:1 X:x2:2 MA:x1:x2 B:x1 B:x2 U:x2 U:x1 | S:s3:2 U:s3 S:s4:1 U:s4 %s'
               % (k, k, fin(cls)))
    # move assignment over an owning guard of every kind while another thread uses both locks
    for m in MODES:
        a = PRE[m]
        for m2 in MODES:
            out.append('P %s_g_assign_%s_vs_%s %s | %s:%s1:1 %s:%s2:2 MA:%s1:%s2 B:%s1 B:%s2 U:%s2 U:%s1 | %s:%s3:2 U:%s3 %s:%s4:1 U:%s4 '
                       '|| X:x11:1 U:x11 X:x12:2 U:x12'
                       % (k, m, m2, k, m, a, m, a, a, a, a, a, a, a, m2, PRE[m2], PRE[m2], m2, PRE[m2], PRE[m2]))
    # conversion on non-owning guards, results of conversions, consumed guards
    out.append('P %s_g_conv %s | D:i1 UP:i1:x2 B:x2 DN:x2:i3 B:i3 SIX:i4:1 UP:i4:x5 B:i4 B:x5 DN:x5:i6 B:x5 B:i6 '
               'U:i6 U:x5 U:i4 U:i3 U:x2 U:i1 | %s %s' % (k, k, sec('S', 7), fin(cls)))
    # a moved guard upgraded / downgraded
    out.append('P %s_g_moveconv %s | SIX:i1:1 MV:i1:i2 UP:i2:x3 MV:x3:x4 DN:x4:i5 B:i5 U:i5 U:x4 U:x3 U:i2 U:i1 | %s %s'
               % (k, k, sec('X', 6), fin(cls)))
    return out


# ---- OptimisticLock only --------------------------------------------------------------------------
def opt_basic():
    out = []
    f = fin('opt')
    for b in MODES:
        # sample, then a writer may or may not commit, then verify / try-lock
        out.append('P opt_verify_%s opt | GV:o1:1 VV:o1 VV:o1 | %s %s' % (b, sec(b, 4), f))
        for tk, tg in (('TS', 's'), ('TI', 'i'), ('TX', 'x')):
            out.append('P opt_%s_%s opt | GV:o1:1 %s:o1:%s2 B:%s2 U:%s2 VV:o1 | %s %s' % (tk, b, tk, tg, tg, tg, sec(b, 4), f))
    # retry after failure succeeds with the refreshed version
    out.append('P opt_retry opt | GV:o1:1 TX:o1:x2 U:x2 TX:o1:x3 U:x3 | X:x4:1 U:x4 %s' % f)
    # upgrade / downgrade commit versions
    out.append('P opt_conv_ver opt | GV:o1:1 VV:o1 VV:o1 | SIX:i2:1 UP:i2:x3 XV:x3 DN:x3:i4 UP:i4:x5 XV:x5 U:x5 U:i4 U:x3 U:i2 %s' % f)
    return out


def opt_version():
    out = []
    f = fin('opt')
    big = 4294967295
    out.append('P opt_wrap opt |< X:x9:1 SV:x9:%d U:x9 | X:x1:1 XV:x1 U:x1 GV:o2:1 | GV:o3:1 VV:o3 S:s4:1 U:s4 VV:o3 %s' % (big, f))
    out.append('P opt_setver opt | X:x1:1 SV:x1:305419896 U:x1 X:x2:1 XV:x2 SV:x2:65536 DN:x2:i3 U:i3 U:x2 | GV:o4:1 VV:o4 TX:o4:x5 XV:x5 U:x5 %s' % f)
    out.append('P opt_setver_hi opt |< X:x9:1 SV:x9:2147483648 U:x9 | X:x1:1 XV:x1 SV:x1:4294901760 U:x1 | SIX:i2:1 U:i2 GV:o3:1 S:s4:1 U:s4 VV:o3 %s' % f)
    out.append('P opt_moved_x opt | X:x1:1 SV:x1:77 MV:x1:x2 U:x1 XV:x2 U:x2 D:x3 X:x4:1 MA:x4:x3 XV:x3 U:x3 U:x4 | GV:o5:1 VV:o5 %s' % f)
    out.append('P opt_assign_over_x opt | X:x1:1 SV:x1:500 X:x2:2 SV:x2:900 MA:x1:x2 U:x2 U:x1 | GV:o3:2 VV:o3 GV:o4:1 VV:o4 || GV:o10:1 GV:o11:2')
    return out


def opt_prepare():
    out = []
    f = fin('opt')
    for b in MODES:
        out.append('P opt_prep_%s opt | PR:c1:1 CV:c1 B:c1 U:c1 | %s %s' % (b, sec(b, 4), f))
    out.append('P opt_prep_move opt | X:x1:1 U:x1 | PR:c2:1 MV:c2:c3 B:c2 B:c3 CV:c3 D:c4 MA:c3:c4 B:c4 CV:c4 U:c4 U:c3 U:c2 %s' % f)
    out.append('P opt_prep_wr opt | X:x1:1 U:x1 X:x2:1 U:x2 | PR:c3:1 CV:c3 U:c3 %s' % f)
    # a composite guard (owning when PrepareRead had to fall back to the shared lock) overwritten by the guard of another
    # lock, and the other way round: the grant that is given up is the one on the OLD lock
    f2 = '|| GV:o10:1 X:x11:1 U:x11 GV:o10:1 X:x12:2 U:x12'
    out.append('P opt_prep_assign_over opt | X:x1:1 U:x1 | PR:c2:1 PR:c3:2 MA:c3:c2 B:c2 B:c3 CV:c2 U:c2 U:c3 %s' % f2)
    out.append('P opt_prep_assign_over2 opt | X:x1:1 U:x1 | PR:c2:1 PR:c3:2 MA:c3:c2 B:c2 B:c3 CV:c2 U:c2 U:c3 | X:x4:2 U:x4 %s' % f2)
    out.append('P opt_prep_assign_back opt | X:x1:2 U:x1 | PR:c2:1 PR:c3:2 MA:c2:c3 B:c2 B:c3 CV:c3 U:c3 U:c2 %s' % f2)
    out.append('P opt_prep_3 opt | X:x1:1 U:x1 | PR:c2:1 CV:c2 U:c2 | S:s3:1 U:s3 %s' % f)
    return out


def opt_mix3():
    f = fin('opt')
    return ['P opt_mix3_a opt | GV:o1:1 TX:o1:x2 U:x2 | GV:o3:1 TS:o3:s4 U:s4 | X:x5:1 U:x5 %s' % f,
            'P opt_mix3_b opt | GV:o1:1 TI:o1:i2 UP:i2:x3 U:x3 U:i2 | PR:c4:1 CV:c4 U:c4 | S:s5:1 U:s5 %s' % f,
            'P opt_mix3_c opt | GV:o1:1 VV:o1 | X:x2:1 SV:x2:0 U:x2 | X:x3:1 U:x3 %s' % f]


def handover(cls):
    """a guard created by one thread and destroyed by another (client-side synchronised)"""
    return ['P %s_handover_X %s | X:x1:1 | WAIT:x1 U:x1 X:x2:1 U:x2 | S:s3:1 U:s3 %s' % (cls, cls, fin(cls)),
            'P %s_handover_S %s | S:s1:1 | WAIT:s1 U:s1 | X:x3:1 U:x3 %s' % (cls, cls, fin(cls))]


def crowd(cls):
    """several grants held at the same time, reached without preemptions: threads wait (client side) for the guards of
    the others to exist before they go on - shared holders pile up before an upgrade / an exclusive request / a second
    SIX request is made, and leave only afterwards"""
    out = []
    f = fin(cls)
    for n in (2, 3):
        hs = ['S:s%d:1 WAIT:i1 U:s%d' % (10 - k, 10 - k) for k in range(n)]
        w = ' '.join('WAIT:s%d' % (10 - k) for k in range(n))
        out.append('P %s_crowd_up%d %s | %s SIX:i1:1 UP:i1:x2 U:x2 U:i1 | %s %s' % (cls, n, cls, w, ' | '.join(hs), f))
        out.append('P %s_crowd_updn%d %s | %s SIX:i1:1 UP:i1:x2 DN:x2:i3 UP:i3:x4 U:x4 U:i3 U:x2 U:i1 | %s %s' % (cls, n, cls, w, ' | '.join(hs), f))
        hs2 = ['S:s%d:1 WAIT:s%d U:s%d' % (10 - k, 10 - ((k + 1) % n), 10 - k) for k in range(n)]
        out.append('P %s_crowd_x%d %s | %s X:x1:1 U:x1 | %s %s' % (cls, n, cls, w, ' | '.join(hs2), f))
        out.append('P %s_crowd_six%d %s | %s SIX:i1:1 U:i1 | %s | %s SIX:i5:1 U:i5 %s' % (cls, n, cls, w, ' | '.join(hs2), w, f))
    if cls == 'mcs':
        return out      # the queue lock makes a shared request that arrives behind a granted SIX wait: the programs below would wait for ever
    # shared requests admitted next to a SIX holder that then upgrades; a downgrade that lets shared requests in
    out.append('P %s_crowd_sixs %s | SIX:i1:1 WAIT:s9 WAIT:s8 UP:i1:x2 U:x2 U:i1 | WAIT:i1 S:s9:1 WAIT:s8 U:s9 | WAIT:i1 S:s8:1 WAIT:s9 U:s8 %s'
               % (cls, cls, f))
    out.append('P %s_crowd_dn %s | X:x1:1 DN:x1:i2 WAIT:s9 WAIT:s8 UP:i2:x3 U:x3 U:i2 U:x1 | WAIT:i2 S:s9:1 WAIT:s8 U:s9 | WAIT:i2 S:s8:1 WAIT:s9 U:s8 %s'
               % (cls, cls, f))
    return out


def twolocks(cls):
    return ['P %s_2locks %s | X:x1:1 S:s2:2 U:s2 U:x1 | S:s3:1 U:s3 X:x4:2 U:x4 || X:x11:1 U:x11 X:x12:2 U:x12' % (cls, cls)]


QUIET = ('Sq', 'SIXq', 'Xq', 'UPGq', 'UPGqq', 'DNGq', 'DNGqq', 'XqX')


def quiesce(cls, tag='q3'):
    """a holder that waits until the two other threads have finished or queued up behind it, then releases / converts:
    queues of waiters (and groups of shared holders) are in place without a single preemption"""
    return cross(cls, [QUIET, MODES + ('UPG', 'DNG'), MODES], tag)


def opt_quiesce():
    """optimistic readers / PrepareRead against a writer that waits for everybody to queue up, leaves, waits again and comes back,
    and a shared holder that stays until the others are quiet"""
    return cross('opt', [('PRV', 'GTS', 'GTX', 'GVV'), ('XqX', 'XqQX', 'DNGq', 'Xq'), ('Sq', 'SIXq', 'S', 'SIX')], 'oq3')


def twolock_follow(cls, tag='tl'):
    """one thread uses lock 1 (while another thread queues up behind it or shares it) and then lock 2: whatever a lock keeps
    per thread (MCS: the cached queue node with its link and flag bits) is carried from one lock to the next"""
    out = []
    f2 = '|| X:x11:1 U:x11 X:x12:2 U:x12' if cls != 'opt' else '|| GV:o10:1 X:x11:1 U:x11 GV:o10:1 X:x12:2 U:x12'
    for a in ('S', 'SIX', 'X', 'UPG', 'DNG'):
        for b in MODES:
            for c in MODES:
                g = G()
                t1 = script(a, g, 1) + ' ' + script(b, g, 2)
                t2 = script(c, g, 1)
                out.append('P %s_%s_%s-%s_%s %s | %s | %s %s' % (cls, tag, a, b, c, cls, t1, t2, f2))
    return out


def random_programs(cls, n, seed, threads=3, maxops=3):
    """seeded random well-formed programs: each thread a sequence of sections with optional conversions"""
    rnd = random.Random(seed)
    out = []
    for k in range(n):
        g = 0
        ths = []
        for t in range(threads):
            ops = []
            for _ in range(rnd.randint(1, maxops)):
                m = rnd.choice(MODES)
                g += 1
                cur = (m, g)
                ops.append('%s:%s%d:1' % (m, PRE[m], g))
                made = [cur]
                for _ in range(rnd.randint(0, 2)):
                    if cur[0] == 'SIX' and g < 10:
                        g += 1
                        ops.append('UP:i%d:x%d' % (cur[1], g))
                        cur = ('X', g)
                        made.append(cur)
                    elif cur[0] == 'X' and g < 10:
                        g += 1
                        ops.append('DN:x%d:i%d' % (cur[1], g))
                        cur = ('SIX', g)
                        made.append(cur)
                for mm, gg in reversed(made):
                    ops.append('U:%s%d' % (PRE[mm], gg))
                if g >= 10:
                    break
            ths.append(' '.join(ops))
            if g >= 10:
                break
        out.append('P %s_rnd%d_%d %s | %s %s' % (cls, seed, k, cls, ' | '.join(ths), fin(cls)))
    return out


# ---- systematic generation: scripts and their cross products -------------------------------------
class G:
    """guard-number allocator for one program"""
    def __init__(self):
        self.n = 0

    def new(self):
        self.n += 1
        return self.n


def script(name, g, lock=1):
    """one thread's operation sequence; every grant it takes is released at the end"""
    a = g.new
    if name in MODES:
        k = a()
        return '%s:%s%d:%d U:%s%d' % (name, PRE[name], k, lock, PRE[name], k)
    if name == 'UPG':
        i, x = a(), a()
        return 'SIX:i%d:%d UP:i%d:x%d U:x%d U:i%d' % (i, lock, i, x, x, i)
    if name == 'DNG':
        x, i = a(), a()
        return 'X:x%d:%d DN:x%d:i%d U:i%d U:x%d' % (x, lock, x, i, i, x)
    if name == 'UPDN':
        i, x, j = a(), a(), a()
        return 'SIX:i%d:%d UP:i%d:x%d DN:x%d:i%d U:i%d U:x%d U:i%d' % (i, lock, i, x, x, j, j, x, i)
    if name == 'DNUP':
        x, i, y = a(), a(), a()
        return 'X:x%d:%d DN:x%d:i%d UP:i%d:x%d U:x%d U:i%d U:x%d' % (x, lock, x, i, i, y, y, i, x)
    if name == 'XS':
        x, s = a(), a()
        return 'X:x%d:%d U:x%d S:s%d:%d U:s%d' % (x, lock, x, s, lock, s)
    # holder scripts that wait (Q) until every other thread has finished or queued up before they go on
    if name in ('Sq', 'SIXq', 'Xq'):
        m = name[:-1]
        k = a()
        return '%s:%s%d:%d Q U:%s%d' % (m, PRE[m], k, lock, PRE[m], k)
    if name == 'UPGq':
        i, x = a(), a()
        return 'SIX:i%d:%d Q UP:i%d:x%d U:x%d U:i%d' % (i, lock, i, x, x, i)
    if name == 'UPGqq':
        i, x = a(), a()
        return 'SIX:i%d:%d Q UP:i%d:x%d Q U:x%d U:i%d' % (i, lock, i, x, x, i)
    if name == 'DNGq':
        x, i = a(), a()
        return 'X:x%d:%d Q DN:x%d:i%d U:i%d U:x%d' % (x, lock, x, i, i, x)
    if name == 'DNGqq':
        x, i = a(), a()
        return 'X:x%d:%d Q DN:x%d:i%d Q U:i%d U:x%d' % (x, lock, x, i, i, x)
    if name == 'XqX':
        x, y = a(), a()
        return 'X:x%d:%d Q U:x%d X:x%d:%d U:x%d' % (x, lock, x, y, lock, y)
    if name == 'XqQX':
        x, y = a(), a()
        return 'X:x%d:%d Q U:x%d Q X:x%d:%d U:x%d' % (x, lock, x, y, lock, y)
    if name == 'XX':
        x, y = a(), a()
        return 'X:x%d:%d U:x%d X:x%d:%d U:x%d' % (x, lock, x, y, lock, y)
    if name == 'SX':
        s, x = a(), a()
        return 'S:s%d:%d U:s%d X:x%d:%d U:x%d' % (s, lock, s, x, lock, x)
    # OptimisticLock only
    if name == 'GVV':
        o = a()
        return 'GV:o%d:%d VV:o%d VV:o%d' % (o, lock, o, o)
    if name in ('GTS', 'GTI', 'GTX'):
        o, h = a(), a()
        op, pre = {'GTS': ('TS', 's'), 'GTI': ('TI', 'i'), 'GTX': ('TX', 'x')}[name]
        return 'GV:o%d:%d %s:o%d:%s%d U:%s%d VV:o%d' % (o, lock, op, o, pre, h, pre, h, o)
    if name == 'GTXX':
        o, h, h2 = a(), a(), a()
        return 'GV:o%d:%d TX:o%d:x%d XV:x%d U:x%d TX:o%d:x%d U:x%d' % (o, lock, o, h, h, h, o, h2, h2)
    if name == 'PRV':
        c = a()
        return 'PR:c%d:%d CV:c%d U:c%d' % (c, lock, c, c)
    if name == 'XSV':
        x = a()
        return 'X:x%d:%d SV:x%d:%d U:x%d' % (x, lock, x, 1000 + x, x)
    if name == 'XSV0':   # republish the version the section started from
        x = a()
        return 'X:x%d:%d SV:x%d:0 U:x%d' % (x, lock, x, x)
    if name == 'GTIUP':
        o, i, x = a(), a(), a()
        return 'GV:o%d:%d TI:o%d:i%d UP:i%d:x%d XV:x%d U:x%d U:i%d' % (o, lock, o, i, i, x, x, x, i)
    raise ValueError(name)


COMMON_SCRIPTS = ('S', 'SIX', 'X', 'UPG', 'DNG', 'UPDN', 'DNUP', 'XS')
OPT_SCRIPTS = ('GVV', 'GTS', 'GTI', 'GTX', 'PRV', 'XSV', 'GTIUP')


def cross(cls, sets, tag='x', final=True):
    """one program per combination of scripts (one per thread); unordered when all sets are equal"""
    out = []
    seen = set()
    for combo in itertools.product(*sets):
        key = tuple(sorted(combo)) if all(s == sets[0] for s in sets) else combo
        if key in seen:
            continue
        seen.add(key)
        g = G()
        ths = [script(n, g) for n in combo]
        if g.n > 10:
            continue
        out.append('P %s_%s_%s %s | %s %s' % (cls, tag, '-'.join(combo), cls, ' | '.join(ths), fin(cls) if final else ''))
    return out


def cross2(cls, a=None, b=None, tag='x2'):
    a = a or COMMON_SCRIPTS
    b = b or a
    return cross(cls, [tuple(a), tuple(b)], tag)


def cross3(cls, a, b, c, tag='x3'):
    return cross(cls, [tuple(a), tuple(b), tuple(c)], tag)


FOUR = (('X', 'SIX', 'S', 'X'), ('X', 'S', 'SIX', 'X'), ('X', 'S', 'S', 'X'), ('S', 'X', 'S', 'X'), ('SIX', 'S', 'X', 'S'),
        ('X', 'X', 'S', 'S'), ('S', 'S', 'X', 'SIX'), ('X', 'SIX', 'S', 'SIX'), ('SIX', 'X', 'S', 'X'), ('S', 'SIX', 'X', 'S'),
        ('X', 'S', 'X', 'S'), ('SIX', 'S', 'S', 'X'), ('X', 'SIX', 'SIX', 'S'), ('S', 'X', 'SIX', 'S'), ('S', 'X', 'S', 'S'),
        ('S', 'SIX', 'S', 'S'), ('X', 'X', 'S', 'S'),
        # the first holder comes back for the lock while the group it handed over to is still in (node reuse from the cache)
        ('XX', 'S', 'S', 'X'), ('XX', 'S', 'S', 'SIX'), ('XS', 'S', 'S', 'X'), ('XX', 'S', 'X', 'S'), ('DNUP', 'S', 'S', 'X'),
        ('UPDN', 'S', 'S', 'X'))


def four(cls, full=False):
    """four requesters on one lock (two or more waiters queued behind a holder)"""
    combos = list(itertools.product(MODES, repeat=4)) if full else FOUR
    out = []
    for combo in combos:
        g = G()
        out.append('P %s_x4_%s %s | %s %s' % (cls, '-'.join(combo), cls, ' | '.join(script(m, g) for m in combo), fin(cls)))
    return out


FIVE = (('S', 'X', 'SIX', 'S', 'X'), ('X', 'SIX', 'S', 'X', 'S'), ('S', 'X', 'S', 'S', 'X'), ('X', 'S', 'SIX', 'S', 'SIX'),
        ('SIX', 'S', 'X', 'S', 'S'))


def five(cls):
    """five requesters: a holder and a queue of four (groups of shared requests behind exclusive ones)"""
    out = []
    for combo in FIVE:
        g = G()
        out.append('P %s_x5_%s %s | %s %s' % (cls, '-'.join(combo), cls, ' | '.join(script(m, g) for m in combo), fin(cls)))
    return out
