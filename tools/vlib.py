#!/usr/bin/env python3
"""Shared machinery of the checks: cached harness build from /repo's working tree, sharded
exploration of real executions, trace conversion, TLC runs (model checking and trace
validation), findings matching and evidence files.  python3 stdlib only."""
import hashlib, json, os, re, shutil, subprocess, sys, time, glob, itertools
from concurrent.futures import ThreadPoolExecutor

ROOT = os.path.dirname(os.path.dirname(os.path.abspath(__file__)))
REPO = os.environ.get('VERIF_REPO', '/repo')
CACHE = os.path.join(ROOT, '.cache')
OUT = os.path.join(ROOT, 'out')
SPEC = os.path.join(ROOT, 'spec')
NCPU = min(16, os.cpu_count() or 4)
TLC_CP = '/opt/veriftools/tla/tla2tools.jar:/opt/veriftools/tla/CommunityModules-deps.jar'


class InfraError(Exception):
    """The machinery failed (build, TLC parse error, timeout): exit 2, never a VIOLATION."""


def log(*a):
    print(*a, file=sys.stderr, flush=True)


def sh(cmd, timeout=600, env=None, cwd=None, check=False):
    e = dict(os.environ)
    if env:
        e.update(env)
    p = subprocess.run(cmd, shell=isinstance(cmd, str), stdout=subprocess.PIPE, stderr=subprocess.STDOUT,
                       timeout=timeout, env=e, cwd=cwd, text=True, errors='replace')
    if check and p.returncode != 0:
        raise InfraError('command failed (%d): %s\n%s' % (p.returncode, cmd, p.stdout[-4000:]))
    return p.returncode, p.stdout


# ------------------------------------------------------------------------------------------------
# build
# ------------------------------------------------------------------------------------------------
def tree_hash(extra=''):
    h = hashlib.sha256()
    files = []
    for base in (os.path.join(REPO, 'src'), os.path.join(REPO, 'include'), os.path.join(ROOT, 'harness')):
        for d, _, fs in os.walk(base):
            for f in fs:
                files.append(os.path.join(d, f))
    for f in sorted(files):
        h.update(f.encode())
        with open(f, 'rb') as fh:
            h.update(fh.read())
    h.update(extra.encode())
    return h.hexdigest()[:16]


def build(n=4, flags=''):
    """Compile the library from REPO's working tree with the shim and link the harness binaries."""
    os.makedirs(CACHE, exist_ok=True)
    key = tree_hash('N=%s;%s' % (n, flags))
    d = os.path.join(CACHE, 'b_' + key)
    if os.path.exists(os.path.join(d, 'ok')):
        os.utime(d)
        return d
    tmp = d + '.tmp%d' % os.getpid()
    shutil.rmtree(tmp, ignore_errors=True)
    t0 = time.time()
    rc, out = sh([os.path.join(ROOT, 'harness', 'build.sh'), tmp, str(n)], timeout=900,
                 env={'VERIF_EXTRA_FLAGS': flags, 'VERIF_REPO': REPO})
    if rc != 0 or 'built' not in out:
        shutil.rmtree(tmp, ignore_errors=True)
        raise InfraError('harness build failed:\n' + out[-6000:])
    open(os.path.join(tmp, 'ok'), 'w').write('%.1f' % (time.time() - t0))
    shutil.rmtree(d, ignore_errors=True)
    os.rename(tmp, d)
    # keep the cache small
    olds = sorted((o for o in glob.glob(os.path.join(CACHE, 'b_*')) if '.tmp' not in o), key=os.path.getmtime)
    for o in olds[:-24]:
        if time.time() - os.path.getmtime(o) > 3 * 3600:     # never evict a build another run may be using
            shutil.rmtree(o, ignore_errors=True)
    for o in glob.glob(os.path.join(CACHE, 'l2_*.json')):
        if time.time() - os.path.getmtime(o) > 24 * 3600:
            os.unlink(o)
    return d


# ------------------------------------------------------------------------------------------------
# exploration of real executions
# ------------------------------------------------------------------------------------------------
class Exec:
    __slots__ = ('prog', 'idx', 'events', 'status', 'sig', 'sched', 'steps', 'src')

    def __init__(self):
        self.events = []
        self.status = 'aborted'
        self.sig = 0
        self.sched = ''
        self.steps = 0


def iter_execs(path):
    cur = None
    with open(path, errors='replace') as f:
        for line in f:
            line = line.strip()
            if not line:
                continue
            try:
                e = json.loads(line)
            except ValueError:
                continue
            k = e.get('e')
            if k == 'exec':
                cur = Exec()
                cur.prog = e['prog']
                cur.idx = e['idx']
                cur.src = path
            elif k == 'end':
                if cur is not None:
                    cur.status = e['status']
                    cur.sig = e.get('sig', 0)
                    cur.sched = e.get('sched', '')
                    cur.steps = e.get('steps', 0)
                    yield cur
                cur = None
            elif k == 'summary':
                pass
            elif cur is not None:
                cur.events.append(e)


def run_harness(bdir, binary, args, programs, workdir, mode='dfs', pb=2, max_exec=20000, seed=0, shards=None,
                timeout=3600, tag='x', budget_s=None):
    """Run `binary args` over the program lines, sharded over processes.  Returns raw trace files."""
    os.makedirs(workdir, exist_ok=True)
    pf = os.path.join(workdir, tag + '.programs.txt')
    with open(pf, 'w') as f:
        f.write('\n'.join(programs) + '\n')
    shards = shards or min(NCPU, max(1, len(programs)))
    procs = []
    outs = []
    for i in range(shards):
        o = os.path.join(workdir, '%s.raw.%d.ndjson' % (tag, i))
        outs.append(o)
        # wall-clock budget of one plan item: code that hangs (every execution runs into the per-execution time limit) must not
        # keep a check busy for hours - what was explored until then is judged
        if budget_s is None:
            budget_s = 150 if os.environ.get('VERIF_TIER_ACTIVE', 'quick') == 'quick' else 2400
        cmd = [os.path.join(bdir, binary)] + list(args) + ['--programs', pf, '--out', o, '--mode', mode, '--pb', str(pb),
                                                          '--max-exec', str(max_exec), '--seed', str(seed),
                                                          '--shard', '%d/%d' % (i, shards), '--deadline', str(int(time.time()) + budget_s)]
        procs.append(subprocess.Popen(cmd, stdout=subprocess.DEVNULL, stderr=subprocess.PIPE, text=True))
    t0 = time.time()
    for p in procs:
        try:
            _, err = p.communicate(timeout=max(1, timeout - (time.time() - t0)))
        except subprocess.TimeoutExpired:
            for q in procs:
                q.kill()
            raise InfraError('harness exploration timed out (%s)' % tag)
        if p.returncode != 0:
            raise InfraError('harness failed rc=%s: %s' % (p.returncode, (err or '')[-2000:]))
    return outs


def replay(bdir, binary, args, program, sched, workdir, tag='replay'):
    os.makedirs(workdir, exist_ok=True)
    pf = os.path.join(workdir, tag + '.program.txt')
    open(pf, 'w').write(program + '\n')
    o = os.path.join(workdir, tag + '.raw.ndjson')
    rc, out = sh([os.path.join(bdir, binary)] + list(args) + ['--programs', pf, '--out', o, '--sched', sched], timeout=120)
    if rc != 0:
        raise InfraError('replay failed: ' + out[-2000:])
    return list(iter_execs(o))


# ------------------------------------------------------------------------------------------------
# word decoding (lock classes)
# ------------------------------------------------------------------------------------------------
def decode_word(cls, hexval, addr2node=None):
    v = int(hexval, 16)
    x = (v >> 63) & 1
    six = (v >> 62) & 1
    if cls == 'pess':
        return {'x': x, 'six': six, 's': v & ((1 << 62) - 1)}
    if cls == 'opt':
        ver = v & 0xFFFFFFFF
        return {'x': x, 'six': six, 's': (v >> 32) & ((1 << 30) - 1), 'vh': ver >> 16, 'vl': ver & 0xFFFF}
    if cls == 'mcs':
        ptr = v & ((1 << 47) - 1)
        name = 0 if ptr == 0 else (addr2node or {}).get(ptr, -1)
        return {'x': x, 'six': six, 's': (v >> 47) & 0x7FFF, 'p': name}
    raise ValueError(cls)


# ------------------------------------------------------------------------------------------------
# API-level histories for LockAbsTrace
# ------------------------------------------------------------------------------------------------
API_FIELDS = ('t', 'op', 'g', 'h', 'l', 'b', 'sb', 'r', 'vh', 'vl', 'xh', 'xl', 'm')
INST_OPS = {'Default', 'Bool', 'SetVersion', 'XVersion', 'Sync'}
MODE_OF = {'LockS': 'S', 'LockSIX': 'SIX', 'LockX': 'X'}


def norm_api(e, kind):
    o = {'e': kind}
    for k in API_FIELDS:
        v = e.get(k, '-' if k in ('op', 'm') else -1)
        o[k] = v
    return o


def api_history(ex, fifo=False, crash_is_stuck=True):
    """Project a raw execution onto the abstract lock's event vocabulary."""
    out = []
    pending = {}
    arrived = set()
    for e in ex.events:
        k = e.get('e')
        if k == 'call':
            out.append(norm_api(e, 'call'))
            pending[e['t']] = e
            arrived.discard(e['t'])
        elif k == 'ret':
            if e['op'] in INST_OPS:
                out.append(norm_api(e, 'inst'))
            else:
                out.append(norm_api(e, 'ret'))
                pending.pop(e['t'], None)
        elif k == 'op' and fifo:
            t = e['t']
            c = pending.get(t)
            if c and c['op'] in MODE_OF and t not in arrived and e['cls'] == 'lock' and e['k'] in (
                    'store', 'xchg', 'cas', 'fadd', 'fsub', 'fxor'):
                arrived.add(t)
                a = norm_api({'t': t, 'l': c['l'], 'm': MODE_OF[c['op']], 'op': 'arrive'}, 'arrive')
                out.append(a)
        elif k == 'stuck':
            out.append(norm_api({'op': 'stuck'}, 'stuck'))
    if ex.status in ('crash', 'timeout', 'aborted', 'steplimit') and crash_is_stuck:
        out.append(norm_api({'op': ex.status}, 'stuck'))
    return out


def _hkey(h):
    # 16-byte digest of the canonical JSON text: the text itself doubles the memory of a thorough run
    return hashlib.blake2b(json.dumps(h, sort_keys=True, separators=(',', ':')).encode(), digest_size=16).digest()


def stream_groups(files, proj, keep=lambda ex: True, keep_events=False, counters=None):
    """Read raw trace files one execution at a time, project, de-duplicate: returns [history, representative, count] lists in
    first-seen order.  Raw events are dropped right away (a representative keeps program, schedule and status: enough to re-run
    it) unless keep_events - a thorough run explores millions of executions."""
    seen = {}
    order = []
    for f in files:
        for ex in iter_execs(f):
            if counters is not None:
                counters[ex.status] = counters.get(ex.status, 0) + 1
            if not keep(ex):
                continue
            h = proj(ex)
            key = _hkey(h)
            g = seen.get(key)
            if g is not None:
                g[2] += 1
                continue
            if not keep_events:
                ex.events = []
            seen[key] = [h, ex, 1]
            order.append(key)
    return [seen[k] for k in order]


def merge_groups(lists):
    seen = {}
    order = []
    for groups in lists:
        for h, ex, n in groups:
            key = _hkey(h)
            if key in seen:
                seen[key][2] += n
            else:
                seen[key] = [h, ex, n]
                order.append(key)
    return [tuple(seen[k]) for k in order]


def dedup_histories(execs, proj):
    """Group executions by projected history; returns list of (history, representative exec, count)."""
    seen = {}
    order = []
    for ex in execs:
        h = proj(ex)
        key = json.dumps(h, sort_keys=True, separators=(',', ':'))
        if key in seen:
            seen[key][2] += 1
        else:
            seen[key] = [h, ex, 1]
            order.append(key)
    return [tuple(seen[k]) for k in order]


# ------------------------------------------------------------------------------------------------
# TLC
# ------------------------------------------------------------------------------------------------
def tlc_cmd(spec, cfg, metadir, workers=1, heap='3g', extra=(), simulate=None):
    cmd = ['java', '-XX:+UseParallelGC', '-Xmx' + heap, '-Xss256m', '-DTLA-Library=' + SPEC, '-cp', TLC_CP, 'tlc2.TLC', '-workers', str(workers),
           '-metadir', metadir, '-noGenerateSpecTE', '-config', cfg]
    if simulate:
        cmd += ['-simulate', simulate]
    cmd += list(extra) + [spec]
    return cmd


TLC_STATS = re.compile(r'(\d+) states generated, (\d+) distinct states found')


def parse_tlc(out):
    r = {'states': 0, 'distinct': 0, 'ok': False, 'violated': None, 'error': None, 'maxl': None, 'len': None}
    for m in TLC_STATS.finditer(out):
        r['states'] = int(m.group(1))
        r['distinct'] = int(m.group(2))
    if 'Model checking completed. No error has been found.' in out or 'Finished computing initial states' in out and 'No error' in out:
        r['ok'] = True
    m = re.search(r'Invariant (\S+) is violated', out)
    if m:
        r['violated'] = m.group(1)
    m = re.search(r'Temporal properties were violated', out)
    if m:
        r['violated'] = r['violated'] or 'temporal'
    if 'Deadlock reached' in out:
        r['violated'] = r['violated'] or 'deadlock'
    m = re.search(r'"MAXL", (\d+), "LEN", (\d+)', out)
    if m:
        r['maxl'] = int(m.group(1))
        r['len'] = int(m.group(2))
    if 'Parsing or semantic analysis failed' in out or 'Error: ' in out and not r['violated'] and r['maxl'] is None and not r['ok']:
        r['error'] = out[-3000:]
    return r


def run_tlc(spec, cfg, tag, workers=1, heap='3g', env=None, timeout=1200, extra=(), simulate=None, cwd=None):
    md = os.path.join(OUT, 'tlcmeta', tag + '.%d' % os.getpid())
    shutil.rmtree(md, ignore_errors=True)
    os.makedirs(md, exist_ok=True)
    t0 = time.time()
    try:
        rc, out = sh(tlc_cmd(spec, cfg, md, workers, heap, extra, simulate), timeout=timeout, env=env, cwd=cwd or SPEC)
    except subprocess.TimeoutExpired:
        shutil.rmtree(md, ignore_errors=True)
        raise InfraError('TLC timed out: %s' % tag)
    shutil.rmtree(md, ignore_errors=True)
    r = parse_tlc(out)
    r['rc'] = rc
    r['out'] = out
    r['wall'] = time.time() - t0
    return r


def write_cfg(template, subst, path):
    s = open(template).read()
    for k, v in subst.items():
        s = s.replace('@%s@' % k, str(v))
    if '@' in s:
        raise InfraError('unsubstituted cfg placeholder in %s' % template)
    open(path, 'w').write(s)
    return path


MAX_CHUNK_EVENTS = 150000


def _segments(hists, idxs, nchunks):
    total = sum(len(hists[i]) + 1 for i in idxs)
    if not nchunks:
        nchunks = max(1, min(NCPU, total // 1500 + 1))
        if total > NCPU * MAX_CHUNK_EVENTS:
            # a thorough run: more chunks than cores (run NCPU at a time) rather than chunks that one TLC cannot
            # finish within its time limit
            nchunks = -(-total // MAX_CHUNK_EVENTS)
    per = total / nchunks
    segs = [[]]
    acc = 0
    for i in idxs:
        if acc >= per * len(segs) and len(segs) < nchunks:
            segs.append([])
        segs[-1].append(i)
        acc += len(hists[i]) + 1
    return [s for s in segs if s]


def _validate_segments(spec_tla, cfg_path, hists, segs, workdir, tag, timeout):
    jobs = []
    for ci, idxs in enumerate(segs):
        path = os.path.join(workdir, '%s.trace.%d.ndjson' % (tag, ci))
        starts = []
        n = 0
        with open(path, 'w') as f:
            for i in idxs:
                starts.append(n + 1)
                for e in hists[i]:
                    f.write(json.dumps(e, separators=(',', ':')) + '\n')
                f.write('{"e":"reset"}\n')
                n += len(hists[i]) + 1
        jobs.append((ci, idxs, starts, path, n))

    def one(job):
        ci, idxs, starts, path, n = job
        r = run_tlc(spec_tla, cfg_path, '%s.c%d' % (tag, ci), workers=1, heap='2g', env={'TRACE': path}, timeout=timeout)
        return job, r

    rejected = []
    tails = []
    stats = {'states': 0, 'distinct': 0, 'events': sum(j[4] for j in jobs), 'chunks': len(jobs)}
    with ThreadPoolExecutor(max_workers=NCPU) as pool:
        for job, r in pool.map(one, jobs):
            ci, idxs, starts, path, n = job
            stats['states'] += r['states']
            stats['distinct'] += r['distinct']
            for site, order in parse_mo_table(r['out']).items():
                if order != '?':
                    stats.setdefault('mo', {}).setdefault(site, set()).add(order)
            if r['maxl'] is None:
                raise InfraError('TLC trace validation failed to run (%s):\n%s' % (tag, r['out'][-3000:]))
            if r['maxl'] >= n + 1:
                continue
            pos = r['maxl']
            k = 0
            for j, st in enumerate(starts):
                if st <= pos:
                    k = j
            rejected.append({'hist': idxs[k], 'line': pos - starts[k]})
            if idxs[k + 1:]:
                tails.append(idxs[k + 1:])     # not examined yet
    return rejected, tails, stats


def validate_histories(spec_tla, cfg_path, hists, workdir, tag, nchunks=None, timeout=1200):
    """Validate every history (list of events) with TLC; histories are concatenated with reset events
    and split into chunks that run in parallel.  Returns (rejected [{hist,line}], stats) - first
    rejection per chunk only."""
    os.makedirs(workdir, exist_ok=True)
    segs = _segments(hists, list(range(len(hists))), nchunks)
    rej, _, st = _validate_segments(spec_tla, cfg_path, hists, segs, workdir, tag, timeout)
    st['histories'] = len(hists)
    return rej, st


def validate_until_clean(spec_tla, cfg_path, hists, workdir, tag, max_rounds=4, timeout=1200, max_rejections=24):
    """TLC stops at the first history of a chunk it cannot explain; the histories behind it are then
    validated in a further round, so that every history is examined (up to max_rounds rounds)."""
    os.makedirs(workdir, exist_ok=True)
    segs = _segments(hists, list(range(len(hists))), None)
    rejected_all = []
    stats_all = {'states': 0, 'distinct': 0, 'events': 0, 'chunks': 0, 'histories': len(hists), 'unexamined': 0}
    for rnd in range(max_rounds):
        rej, tails, st = _validate_segments(spec_tla, cfg_path, hists, segs, workdir, '%s.r%d' % (tag, rnd), timeout)
        for k in ('states', 'distinct', 'events', 'chunks'):
            stats_all[k] += st[k]
        for site, orders in st.get('mo', {}).items():
            stats_all.setdefault('mo', {}).setdefault(site, set()).update(orders)
        rejected_all.extend(rej)
        if not tails or len(rejected_all) >= max_rejections:
            stats_all['unexamined'] = sum(len(t) for t in tails)
            break
        segs = tails
        if rnd == max_rounds - 1:
            stats_all['unexamined'] = sum(len(t) for t in tails)
    return rejected_all, stats_all


# ------------------------------------------------------------------------------------------------
# findings and evidence
# ------------------------------------------------------------------------------------------------
def load_findings():
    p = os.path.join(ROOT, 'known_findings.json')
    if not os.path.exists(p):
        return []
    return json.load(open(p)).get('findings', [])


def match_finding(prop, witness):
    """witness: dict with 'signature' (set of tags describing the witness).  An open finding matches if
    all of its required tags are in the witness signature."""
    for f in load_findings():
        if f.get('property') != prop or f.get('status') != 'open':
            continue
        need = set(f.get('signature', []))
        if need and need <= set(witness.get('signature', [])):
            return f
    return None


def write_evidence(prop, tier, seed, level, coverage, assumptions, wall, violations):
    evdir = os.path.join(ROOT, 'evidence') if os.path.realpath(REPO) == '/repo' else os.path.join(OUT, 'evidence_alt')
    os.makedirs(evdir, exist_ok=True)
    ev = {'property_id': prop, 'tier': tier, 'seed': int(seed), 'level': level, 'coverage': coverage,
          'assumptions': assumptions, 'wall_s': round(wall, 2), 'violations': int(violations)}
    p = os.path.join(evdir, prop + '.json')
    with open(p + '.tmp', 'w') as f:
        json.dump(ev, f, indent=1)
    os.replace(p + '.tmp', p)
    return p


def write_replay(prop, n, payload):
    d = os.path.join(OUT, 'replay')
    os.makedirs(d, exist_ok=True)
    p = os.path.join(d, '%s-%d.json' % (prop, n))
    json.dump(payload, open(p, 'w'), indent=1)
    return p


# ------------------------------------------------------------------------------------------------
# operation streams for HBTrace (C08) and node accounting (C12)
# ------------------------------------------------------------------------------------------------
ACQ = {'acq', 'acqrel', 'sc'}
REL = {'rel', 'acqrel', 'sc'}
ACQUIRE_OPS = {'LockS': 'S', 'LockSIX': 'SIX', 'LockX': 'X', 'TryLockS': 'S', 'TryLockSIX': 'SIX', 'TryLockX': 'X',
               'PrepareRead': 'S'}


def prog_phases(prog_line):
    """phase of each virtual thread (1-based list index = thread id) as the runtime assigns them"""
    phases = []
    phase = 1
    for tok in prog_line.split():
        if tok == '|<':
            phase = 0
            phases.append(phase)
        elif tok == '|':
            if phase == 0:
                phase = 1
            phases.append(phase)
        elif tok == '||':
            phase = 2 if phase < 2 else phase + 1
            phases.append(phase)
    return phases


def hb_stream(ex, prog_line=None):
    """Operation stream + derived critical-section begin/end events for HBTrace.
    Returns (events, ok) - ok False if the execution cannot be projected (hand-over, too many locations)."""
    out = []
    locs = {}
    glock = {}      # guard -> lock id
    gsec = {}       # guard -> (thread, sid, mode) if owning
    pend = {}
    started = set()
    threads = set()
    final_t = None
    for e in ex.events:
        if 't' in e and e.get('t', 0) > 0:
            threads.add(e['t'])
    ok = True
    sid_counter = [0]

    def newsid():
        sid_counter[0] += 1
        return sid_counter[0]

    def begin(t, g, m, lk):
        s = newsid()
        gsec[g] = (t, s, m, lk)
        out.append({'e': 'begin', 't': t, 'sid': s, 'm': m, 'lk': lk})

    def end(g):
        if g in gsec:
            t, s, m, lk = gsec.pop(g)
            out.append({'e': 'end', 't': t, 'sid': s, 'm': m, 'lk': lk})

    phases = prog_phases(prog_line) if prog_line else []
    for e in ex.events:
        k = e.get('e')
        t = e.get('t', 0)
        if t > 0 and t not in started and k in ('op', 'call', 'ret'):
            started.add(t)
            # a thread of a later phase starts after every thread of the earlier phases was joined
            if t <= len(phases):
                for u in range(1, len(phases) + 1):
                    if phases[u - 1] < phases[t - 1]:
                        out.append({'e': 'sync', 't': t, 'u': u})
        if k == 'op':
            kind = e['k']
            if kind == 'fence':
                out.append({'e': 'fence', 't': t, 'loc': 0, 'acq': int(e['mo'] in ACQ), 'rel': int(e['mo'] in REL)})
                continue
            name = e['loc']
            if name not in locs:
                locs[name] = len(locs) + 1
            loc = locs[name]
            mo = e['mo']
            if kind in ('load', 'casf'):
                out.append({'e': 'ld', 't': t, 'loc': loc, 'acq': int(mo in ACQ), 'rel': 0})
            elif kind == 'store':
                out.append({'e': 'st', 't': t, 'loc': loc, 'acq': 0, 'rel': int(mo in REL)})
            else:
                out.append({'e': 'rmw', 't': t, 'loc': loc, 'acq': int(mo in ACQ), 'rel': int(mo in REL)})
        elif k == 'call':
            pend[t] = e
            op = e['op']
            if op in ('LockS', 'LockSIX', 'LockX', 'PrepareRead', 'GetVersion'):
                glock[e['g']] = e['l']
            elif op == 'Destroy':
                if e['g'] in gsec and gsec[e['g']][0] != t:
                    ok = False
                end(e['g'])
            elif op in ('Upgrade', 'Downgrade'):
                glock[e['h']] = glock.get(e['g'], 0)
                end(e['g'])
            elif op in ('TryLockS', 'TryLockSIX', 'TryLockX'):
                glock[e['h']] = glock.get(e['g'], 0)
            elif op == 'MoveAssign':
                end(e['h'])
        elif k == 'ret':
            op = e['op']
            if op in ACQUIRE_OPS and e.get('b') == 1:
                g = e['g'] if op in ('LockS', 'LockSIX', 'LockX', 'PrepareRead') else e['h']
                begin(t, g, ACQUIRE_OPS[op], glock.get(g, 0))
            elif op == 'Upgrade' and e.get('b') == 1:
                begin(t, e['h'], 'X', glock.get(e['h'], 0))
            elif op == 'Downgrade' and e.get('b') == 1:
                begin(t, e['h'], 'SIX', glock.get(e['h'], 0))
            elif op in ('MoveCtor', 'MoveAssign'):
                if e['g'] in gsec:
                    gsec[e['h']] = gsec.pop(e['g'])
                glock[e['h']] = glock.get(e['g'], 0)
            elif op == 'Sync':
                ok = False
            pend.pop(t, None)
        elif k == 'texit':
            pass
    if len(locs) > 10 or (threads and max(threads) > 5):
        ok = False
    return out, ok


def add_join_syncs(ex, stream):
    """the final thread runs after all others were joined; an init thread runs before the others start"""
    return stream


def node_stream(ex):
    """allocation / free / access stream of MCS queue nodes for NodeTrace (C12)"""
    out = []
    started = set()
    owning = set()      # guards that currently own a grant
    for e in ex.events:
        k = e.get('e')
        t = e.get('t', 0)
        if t > 0 and t not in started and k in ('op', 'call', 'ret', 'alloc'):
            started.add(t)
            out.append({'e': 'tstart', 't': t, 'n': '-'})
        if k == 'alloc' and e.get('cls') == 'N':
            out.append({'e': 'alloc', 't': t, 'n': e['n']})
        elif k == 'free' and e.get('cls') == 'N':
            out.append({'e': 'free', 't': t, 'n': e['n']})
        elif k == 'doublefree':
            out.append({'e': 'free', 't': t, 'n': 'freed:' + e['n']})
        elif k == 'op' and e.get('cls') in ('N', 'freed'):
            n = e['loc'].split('+')[0]
            out.append({'e': 'acc', 't': t, 'n': n if e['cls'] == 'N' else 'freed:' + n})
        elif k == 'call' and e['op'] in ('LockS', 'LockSIX', 'LockX'):
            out.append({'e': 'reqb', 't': t, 'n': '-'})
        elif k == 'ret':
            op = e['op']
            if op in ('LockS', 'LockSIX', 'LockX'):
                if e.get('b') == 1:
                    owning.add(e['g'])
                else:
                    out.append({'e': 'reqe', 't': t, 'n': '-'})
            elif op == 'Destroy':
                if e['g'] in owning:
                    owning.discard(e['g'])
                    out.append({'e': 'reqe', 't': t, 'n': '-'})
            elif op in ('Upgrade', 'Downgrade'):
                if e['g'] in owning:
                    owning.discard(e['g'])
                    if e.get('b') == 1:
                        owning.add(e['h'])
                    else:
                        out.append({'e': 'reqe', 't': t, 'n': '-'})
            elif op == 'MoveCtor':
                if e['g'] in owning:
                    owning.discard(e['g'])
                    owning.add(e['h'])
            elif op == 'MoveAssign':
                if e['h'] in owning:
                    owning.discard(e['h'])
                    out.append({'e': 'reqe', 't': t, 'n': '-'})
                if e['g'] in owning:
                    owning.discard(e['g'])
                    owning.add(e['h'])
        elif k == 'texit':
            out.append({'e': 'texit', 't': t, 'n': '-'})
        elif k == 'final':
            out.append({'e': 'final', 't': 0, 'n': '-'})
    return out


# ------------------------------------------------------------------------------------------------
# Level-2 conformance streams (B1) and learnt memory-order tables (B4)
# ------------------------------------------------------------------------------------------------
L2_CALLS = {'LockS', 'LockSIX', 'LockX', 'Upgrade', 'Downgrade', 'GetVersion', 'Verify', 'TryLockS', 'TryLockSIX', 'TryLockX',
            'PrepareRead', 'CVerify'}


def l2_stream(ex, cls):
    """call / atomic operation / return stream of one lock object for <Cls>ImplTrace.
    Returns (events, ok); ok False when the program uses features outside the Level-2 model."""
    out = []
    owning = set()
    owner = {}
    addr2node = {}
    active = {}          # thread -> True while inside a modelled call
    ok = True
    for e in ex.events:
        k = e.get('e')
        t = e.get('t', 0)
        if k == 'alloc' and e.get('cls') == 'N':
            addr2node[int(e['addr'], 16)] = int(e['n'][1:])
            out.append({'e': 'alloc', 't': t, 'n': int(e['n'][1:])})
        elif k == 'free' and e.get('cls') == 'N':
            out.append({'e': 'free', 't': t, 'n': int(e['n'][1:])})
        elif k == 'call':
            op = e['op']
            if op in L2_CALLS:
                if e.get('l', 1) not in (1, -1):
                    ok = False
                if op in ('LockS', 'LockSIX', 'LockX', 'GetVersion', 'Verify', 'TryLockS', 'TryLockSIX', 'TryLockX', 'PrepareRead') \
                        and any(owner.get(g) == t for g in owning):
                    ok = False             # a second request while the thread holds a grant: outside the Level-2 model
                if op == 'CVerify' and e['g'] not in owning:
                    op = 'Verify'          # a composite guard without the lock verifies like an optimistic guard
                if op in ('Upgrade', 'Downgrade') and e['g'] not in owning:
                    active[t] = None       # conversion of a guard that owns nothing: no operation at all
                    continue
                active[t] = op
                out.append({'e': 'call', 't': t, 'op': op})
            elif op == 'Destroy':
                if e['g'] in owning:
                    active[t] = 'Unlock'
                    out.append({'e': 'call', 't': t, 'op': 'Unlock'})
                else:
                    active[t] = None
            else:
                ok = False
        elif k == 'ret':
            op = e['op']
            if op in ('Default', 'Bool', 'XVersion'):
                continue
            if op == 'SetVersion':
                if e.get('g') in owning:          # on a guard that owns nothing it has no effect at all
                    out.append({'e': 'setv', 't': t, 'vh': e['vh'], 'vl': e['vl']})
                continue
            if op in ('Sync', 'MoveCtor', 'MoveAssign'):
                ok = False
                continue
            if op in ('LockS', 'LockSIX', 'LockX', 'PrepareRead') and e.get('b') == 1:
                owning.add(e['g'])
                owner[e['g']] = t
            elif op in ('TryLockS', 'TryLockSIX', 'TryLockX', 'Upgrade', 'Downgrade'):
                owning.discard(e['g'])
                if e.get('b') == 1:
                    owning.add(e['h'])
                    owner[e['h']] = t
            elif op == 'Destroy':
                owning.discard(e['g'])
            if active.get(t):
                r = {'e': 'ret', 't': t, 'op': active[t]}
                for f in ('b', 'r', 'vh', 'vl'):
                    r[f] = e.get(f, -1)
                out.append(r)
            active[t] = None
        elif k == 'op':
            if not active.get(t):
                ok = False
                continue
            if e['k'] == 'fence':
                out.append({'e': 'op', 't': t, 'k': 'fence', 'loc': 0, 'mo': e['mo']})
                continue
            ev = {'e': 'op', 't': t, 'k': e['k'], 'mo': e['mo']}
            if e['cls'] == 'lock':
                if e['loc'] != 'L1':
                    ok = False
                ev['loc'] = 0
            elif e['cls'] == 'N':
                ev['loc'] = int(e['loc'].split('+')[0][1:])
            else:
                ok = False
                ev['loc'] = -1
            ev.update(decode_word(cls, e['a'], addr2node))
            if cls == 'mcs':
                ev['bp'] = decode_word(cls, e['b'], addr2node)['p']
            out.append(ev)
        elif k == 'tend':
            out.append({'e': 'tend', 't': t})
        elif k == 'texit':
            out.append({'e': 'texit', 't': t})
    return out, ok


L2_FIELDS = {'pess': ('t', 'op', 'k', 'mo', 'x', 'six', 's'),
             'opt': ('t', 'op', 'k', 'mo', 'x', 'six', 's', 'vh', 'vl', 'b', 'r'),
             'mcs': ('t', 'op', 'k', 'mo', 'loc', 'x', 'six', 's', 'p', 'n', 'fr')}


def l2_stream_mcs(ex):
    """MCS: attach the node allocated by a call (n) and the node freed right after an operation or at thread
    exit (fr) to the events the specification's actions correspond to"""
    st, ok = l2_stream(ex, 'mcs')
    out = []
    last = {}       # thread -> index in out of its last call/op event
    body_done = set()
    pending_free = {}
    for e in st:
        k = e['e']
        t = e.get('t', 0)
        if k == 'alloc':
            i = last.get(t)
            if i is None or out[i]['e'] != 'call':
                ok = False
            else:
                out[i]['n'] = e['n']
        elif k == 'free':
            i = last.get(t)
            if t in body_done or i is None:
                pending_free[t] = e['n']
            elif out[i]['e'] == 'op' and out[i].get('fr', 0) == 0:
                out[i]['fr'] = e['n']
            else:
                ok = False
        elif k == 'tend':
            body_done.add(t)
        elif k == 'texit':
            out.append({'e': 'texit', 't': t, 'fr': pending_free.pop(t, 0)})
        else:
            if k == 'call':
                e = dict(e)
                e['n'] = 0
            elif k == 'op':
                e = dict(e)
                e['fr'] = 0
            out.append(e)
            if k in ('call', 'op'):
                last[t] = len(out) - 1
            if k == 'ret':
                pass
    # thread bodies end after their last ret; frees after that belong to the exit
    return out, ok


def norm_l2(e, cls):
    o = {'e': e['e']}
    for f in L2_FIELDS[cls]:
        o[f] = e.get(f, '-' if f in ('op', 'k', 'mo') else -1)
    return o


def parse_mo_table(tlc_out):
    """the learnt table printed by <Cls>ImplTrace: <<"MO", [site |-> "order", ...]>>"""
    m = re.search(r'<<"MO", (.*?)>>\n', tlc_out, re.S)
    if not m:
        return {}
    return dict(re.findall(r'(\w+) \|-> "([\w?]+)"', m.group(1)))


def tla_value(v):
    if isinstance(v, bool):
        return 'TRUE' if v else 'FALSE'
    if isinstance(v, int):
        return str(v)
    if isinstance(v, str):
        return v            # already TLA+ text
    if isinstance(v, (set, frozenset, list, tuple)) and not isinstance(v, str):
        return '{' + ', '.join(tla_value(x) for x in sorted(v)) + '}'
    raise ValueError(v)


def model_check(module, tag, consts, defs=None, invariants=(), properties=(), spec='Spec', constraint=None, workers=8,
                heap='8g', timeout=1500, workdir=None, deadlock=False, extra=()):
    """Generate MC_<tag>.tla / .cfg extending `module` and run TLC.  consts: name -> TLA+ text or python value;
    defs: operator definitions (text) placed in the MC module, constants may be overridden with '<-'."""
    workdir = workdir or os.path.join(OUT, 'work', 'mc')
    os.makedirs(workdir, exist_ok=True)
    name = 'MC_' + re.sub(r'\W', '_', tag)
    tla = ['---- MODULE %s ----' % name, 'EXTENDS %s' % module]
    cfg = ['SPECIFICATION ' + spec, 'CHECK_DEADLOCK ' + ('TRUE' if deadlock else 'FALSE')]
    cl = []
    for k, v in consts.items():
        if isinstance(v, str) and v.startswith('<-'):
            cl.append('  %s <- %s' % (k, v[2:].strip()))
        else:
            cl.append('  %s = %s' % (k, tla_value(v)))
    for d in (defs or []):
        tla.append(d)
    tla.append('====')
    if cl:
        cfg.append('CONSTANTS')
        cfg.extend(cl)
    for i in invariants:
        cfg.append('INVARIANT ' + i)
    for pr in properties:
        cfg.append('PROPERTY ' + pr)
    if constraint:
        cfg.append('CONSTRAINT ' + constraint)
    tp = os.path.join(workdir, name + '.tla')
    cp = os.path.join(workdir, name + '.cfg')
    open(tp, 'w').write('\n'.join(tla) + '\n')
    open(cp, 'w').write('\n'.join(cfg) + '\n')
    r = run_tlc(tp, cp, name, workers=workers, heap=heap, timeout=timeout, cwd=workdir, extra=extra)
    if r['error'] and not r['violated'] and not r['ok']:
        raise InfraError('TLC failed on %s:\n%s' % (name, r['out'][-3000:]))
    r['name'] = name
    return r


def mo_def(table, sites_default='sc'):
    """TLA+ definition of the MO table learnt from the running code; sites never observed get `sites_default`
    (the strongest order: an unobserved site can then never be blamed)"""
    items = ['s = "%s" -> "%s"' % (k, sorted(v)[0] if isinstance(v, (set, frozenset)) else v) for k, v in sorted(table.items())]
    return 'MOlearnt == [s \\in Sites |-> CASE ' + ' [] '.join(items) + ' [] OTHER -> "%s"]' % sites_default
